//! Seeded drivers: produce further real executions (random histories, boundary searches).
//! They only execute and record; TLC judges the traces.
use crate::act::Exec;
use rand::{rngs::StdRng, Rng, SeedableRng};
use serde_json::{json, Map, Value};
use std::io::{BufWriter, Write};

pub struct Recorder {
    pub ex: Exec,
    w: BufWriter<std::fs::File>,
    base: (crate::env::Env, Map<String, Value>, u64),
    setup: Vec<Value>,
    pub scn: u64,
    pub events: u64,
}

impl Recorder {
    pub fn new(path: &str, setup: Vec<Value>) -> Recorder {
        let mut ex = Exec::new();
        for a in &setup {
            let ev = ex.apply(a);
            if ev["res"] != "ok" && a.get("may_fail").is_none() {
                eprintln!("SETUP-FAILED action={} label={}", a, ev["label"]);
                std::process::exit(2);
            }
        }
        let base = ex.snapshot();
        let w = BufWriter::new(std::fs::File::create(path).expect("create trace"));
        Recorder { ex, w, base, setup, scn: 0, events: 0 }
    }
    /// start a new scenario from the post-setup snapshot (plus optional extra setup actions)
    pub fn begin(&mut self, extra: &[Value]) {
        self.ex.restore(&self.base.clone());
        let mut setup = self.setup.clone();
        for a in extra {
            let ev = self.ex.apply(a);
            if ev["res"] != "ok" && a.get("may_fail").is_none() {
                eprintln!("EXTRA-SETUP-FAILED action={} label={} err={}", a, ev["label"], ev["err"]);
            }
            setup.push(a.clone());
        }
        self.scn += 1;
        let full = crate::proj::project(&self.ex.env);
        self.ex.last = full.clone();
        writeln!(self.w, "{}", json!({"i": 0, "scn": self.scn, "ev": "reset", "a": {"op": "reset", "setup": setup}, "res": "ok", "code": 0, "err": "",
            "label": "", "failed_ix": -1, "ts": crate::num::big_i(self.ex.env.world.clock.unix_timestamp as i128), "chg": Value::Object(full)})).unwrap();
        self.ex.n = 1;
    }
    pub fn act(&mut self, a: Value) -> Value {
        let mut ev = self.ex.apply(&a);
        ev["scn"] = json!(self.scn);
        writeln!(self.w, "{}", ev).unwrap();
        self.events += 1;
        ev
    }
    /// execute without recording (used by boundary searches to probe), state is restored afterwards
    pub fn probe(&mut self, a: &Value) -> Value {
        let s = self.ex.snapshot();
        let ev = self.ex.apply(a);
        self.ex.restore(&s);
        ev
    }
    pub fn finish(mut self) {
        self.w.flush().unwrap();
    }
}

pub fn load_setup(name: &str) -> Vec<Value> {
    let p = format!("{}/../spec/setups/{}.json", env!("CARGO_MANIFEST_DIR"), name);
    let v: Value = serde_json::from_str(&std::fs::read_to_string(&p).unwrap_or_else(|_| panic!("setup {}", p))).expect("setup json");
    v.as_array().unwrap().clone()
}

pub fn std_setup() -> Vec<Value> {
    vec![
        json!({"op":"init_fee_state","admin":"feeadmin","wallet":"feewallet","prog_fixed":"0.01","prog_rate":"0.025","liq_max_fee":"0.05"}),
        json!({"op":"init_group","group":"G1","admin":"admin"}),
        json!({"op":"add_mint","mint":"M1","decimals":6,"kind":"spl"}),
        json!({"op":"add_mint","mint":"M2","decimals":9,"kind":"t22fee","fee_bps":100,"max_fee":5000}),
        json!({"op":"set_oracle","oracle":"O1","kind":"pyth","price":1000000,"conf":1000,"expo":-6}),
        json!({"op":"set_oracle","oracle":"O2","kind":"pyth","price":20000000,"conf":20000,"expo":-6}),
        json!({"op":"add_bank","group":"G1","bank":"B1","mint":"M1","cfg":{}}),
        json!({"op":"configure_oracle","bank":"B1","oracle":"O1","setup":3}),
        json!({"op":"add_bank","group":"G1","bank":"B2","mint":"M2","cfg":{}}),
        json!({"op":"configure_oracle","bank":"B2","oracle":"O2","setup":3}),
        json!({"op":"init_account","acct":"A1","group":"G1","authority":"U1"}),
        json!({"op":"init_account","acct":"A2","group":"G1","authority":"U2"}),
        json!({"op":"fund","user":"U1","mint":"M1","amount":1000000000u64}),
        json!({"op":"fund","user":"U2","mint":"M2","amount":100000000000u64}),
    ]
}

pub fn smoke() {
    let mut ex = Exec::new();
    let mut acts = std_setup();
    acts.extend(vec![
        json!({"op":"deposit","acct":"A1","bank":"B1","amount":500000000u64}),
        json!({"op":"deposit","acct":"A2","bank":"B2","amount":50000000000u64}),
        json!({"op":"borrow","acct":"A2","bank":"B1","amount":100000000u64}),
        json!({"op":"tick","dt":3600}),
        json!({"op":"accrue","bank":"B1"}),
        json!({"op":"withdraw","acct":"A1","bank":"B1","amount":0,"all":true}),
    ]);
    for a in acts {
        let ev = ex.apply(&a);
        eprintln!("{:<18} {} {} {}", ev["ev"].as_str().unwrap(), ev["res"], ev["code"], ev["err"]);
    }
}

fn arg<T: std::str::FromStr>(args: &[String], i: usize, d: T) -> T {
    args.get(i).and_then(|s| s.parse().ok()).unwrap_or(d)
}

/// hx drive <name> <outdir> <seed> [args...]
pub fn drive(name: &str, out: &str, args: &[String]) {
    let seed: u64 = arg(args, 0, 1);
    match name {
        "panic" => panic_driver(out, seed, arg(args, 1, 200), arg(args, 2, 60)),
        "ledger" => ledger_driver(out, seed, arg(args, 1, 50), arg(args, 2, 100)),
        _ => {
            eprintln!("unknown driver {}", name);
            std::process::exit(2);
        }
    }
}

/// Random pause/unpause/propagate/probe schedules at one-second resolution, with clock advances
/// biased to land on, just before and just after the expiry and daily-reset boundaries.
fn panic_driver(out: &str, seed: u64, n: u64, len: u64) {
    let mut rng = StdRng::seed_from_u64(seed);
    let mut r = Recorder::new(&format!("{}/panic.trace", out), load_setup("panic"));
    for _ in 0..n {
        r.begin(&[]);
        for _ in 0..len {
            let fs = r.ex.fee_state().unwrap();
            let now = r.ex.env.world.clock.unix_timestamp;
            let ps = fs.panic_state;
            let choice = rng.gen_range(0..100);
            let a = if choice < 30 {
                // tick
                let mut cands: Vec<i64> = vec![1, rng.gen_range(1..4000), rng.gen_range(1..100000)];
                if ps.pause_flags & 1 == 1 {
                    let to_exp = ps.pause_start_timestamp + 1800 - now;
                    for d in [-1, 0, 1] {
                        if to_exp + d > 0 {
                            cands.push(to_exp + d);
                            cands.push(to_exp + d);
                        }
                    }
                }
                let to_day = ps.last_daily_reset_timestamp + 86400 - now;
                for d in [-1, 0, 1] {
                    if to_day + d > 0 {
                        cands.push(to_day + d);
                    }
                }
                let g = r.ex.group("G1").unwrap().panic_state_cache;
                if g.pause_flags & 1 == 1 {
                    let to_exp = g.pause_start_timestamp + 1800 - now;
                    for d in [-1, 0, 1] {
                        if to_exp + d > 0 {
                            cands.push(to_exp + d);
                        }
                    }
                }
                let dt = cands[rng.gen_range(0..cands.len())];
                json!({"op":"tick","dt":dt})
            } else if choice < 50 {
                json!({"op":"panic_pause"})
            } else if choice < 58 {
                json!({"op":"panic_unpause"})
            } else if choice < 68 {
                json!({"op":"panic_unpause_perm"})
            } else if choice < 80 {
                json!({"op":"propagate_fee","group": if rng.gen_bool(0.7) {"G1"} else {"G2"}})
            } else if choice < 97 {
                let g = if rng.gen_bool(0.7) { "G1" } else { "G2" };
                json!({"op":"deposit","acct":format!("A.{}", g),"bank":format!("PB.{}", g),"amount":1})
            } else {
                json!({"op":"panic_pause","signer":"U1"})
            };
            r.act(a);
        }
    }
    r.finish();
}


fn pick<'a, T>(rng: &mut StdRng, v: &'a [T]) -> &'a T {
    &v[rng.gen_range(0..v.len())]
}

/// Random histories of user / keeper / admin instructions with clock advances and price moves.
fn ledger_driver(out: &str, seed: u64, n: u64, len: u64) {
    let mut rng = StdRng::seed_from_u64(seed);
    let mut r = Recorder::new(&format!("{}/ledger.trace", out), load_setup("ledger"));
    let accts = ["A1", "A2", "A3", "A4"];
    let banks = ["B1", "B2", "B3"];
    let amounts: [u64; 12] = [0, 1, 2, 7, 999, 1_000_003, 50_000_000, 1_000_000_000, 33_333_333_333, 2_500_000_000_000, 77, 123_456_789];
    for k in 0..n {
        r.begin(&[]);
        // seed liquidity so that borrowing is possible in most scenarios
        if k % 4 != 3 {
            r.act(json!({"op":"deposit","acct":"A4","bank":"B1","amount": 5_000_000_000u64}));
            r.act(json!({"op":"deposit","acct":"A4","bank":"B2","amount": 2_000_000_000_000u64}));
            r.act(json!({"op":"deposit","acct":"A4","bank":"B3","amount": 100_000_000_000u64}));
        }
        for _ in 0..len {
            let c = rng.gen_range(0..100);
            let acct = *pick(&mut rng, &accts);
            let bank = *pick(&mut rng, &banks);
            let amount = *pick(&mut rng, &amounts);
            let a = if c < 18 {
                json!({"op":"deposit","acct":acct,"bank":bank,"amount":amount})
            } else if c < 32 {
                let all = rng.gen_bool(0.25);
                json!({"op":"withdraw","acct":acct,"bank":bank,"amount":amount,"all":all})
            } else if c < 48 {
                json!({"op":"borrow","acct":acct,"bank":bank,"amount":amount})
            } else if c < 60 {
                let all = rng.gen_bool(0.3);
                json!({"op":"repay","acct":acct,"bank":bank,"amount":amount,"all":all})
            } else if c < 70 {
                let dt = *pick(&mut rng, &[1i64, 1, 60, 3600, 86400, 2_592_000, 31_536_000]);
                json!({"op":"tick","dt":dt})
            } else if c < 75 {
                json!({"op":"accrue","bank":bank})
            } else if c < 80 {
                json!({"op":"collect_fees","bank":bank})
            } else if c < 86 {
                // price move
                let (o, base) = *pick(&mut rng, &[("O1", 1_000_000i64), ("O2", 20_000_000i64)]);
                let f = *pick(&mut rng, &[0.3f64, 0.6, 0.9, 1.0, 1.1, 1.8, 3.0]);
                let p = (base as f64 * f) as i64;
                json!({"op":"set_oracle","oracle":o,"price":p,"conf":p/1000})
            } else if c < 92 {
                let liqee = *pick(&mut rng, &accts);
                let ab = *pick(&mut rng, &banks);
                let lb = *pick(&mut rng, &banks);
                json!({"op":"liquidate","liquidator":acct,"liquidatee":liqee,"asset_bank":ab,"liab_bank":lb,"amount":amount})
            } else if c < 95 {
                json!({"op":"close_balance","acct":acct,"bank":bank})
            } else if c < 97 {
                json!({"op":"bankruptcy","acct":acct,"bank":bank})
            } else if c < 98 {
                json!({"op":"withdraw_fees","bank":bank,"amount":amount % 1000})
            } else if c < 99 {
                json!({"op":"withdraw_insurance","bank":bank,"amount":amount % 1000})
            } else {
                json!({"op":"pulse_health","acct":acct})
            };
            r.act(a);
        }
    }
    r.finish();
}
