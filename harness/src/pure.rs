//! Pure-function entry points (no world): interest curves (C18) and integration math (C20).
use crate::num::{big_i, big_u, parse_fx, parse_i128, parse_u64};
use fixed::types::I80F48;
use marginfi::state::interest_rate::InterestRateConfigImpl;
use marginfi_type_crate::types::{InterestRateConfig, MarginfiGroup, RatePoint, INTEREST_CURVE_LEGACY, INTEREST_CURVE_SEVEN_POINT};
use serde_json::{json, Value};

fn fxd(a: &Value, k: &str) -> I80F48 {
    a.get(k).and_then(parse_fx).unwrap_or(I80F48::ZERO)
}

pub fn call(a: &Value) -> Result<Value, String> {
    match a["op"].as_str().unwrap_or("") {
        "curve" => curve(a),
        "integ" => crate::integ::call(a),
        _ => Err("UnknownPureOp".into()),
    }
}

/// {"op":"curve","zero":u32,"hundred":u32,"points":[[util,rate]x5],"legacy":{opt,plateau,max}?,"fees":{...},"program_fees":bool,"urs":[fx...]}
/// -> validate(); if accepted, calc_interest_rate at each ur.
fn curve(a: &Value) -> Result<Value, String> {
    let mut c: InterestRateConfig = bytemuck::Zeroable::zeroed();
    let fees = a.get("fees").cloned().unwrap_or(json!({}));
    c.insurance_fee_fixed_apr = fxd(&fees, "ins_fixed").into();
    c.insurance_ir_fee = fxd(&fees, "ins_ir").into();
    c.protocol_fixed_fee_apr = fxd(&fees, "grp_fixed").into();
    c.protocol_ir_fee = fxd(&fees, "grp_ir").into();
    if let Some(l) = a.get("legacy") {
        c.curve_type = INTEREST_CURVE_LEGACY;
        c.optimal_utilization_rate = fxd(l, "opt").into();
        c.plateau_interest_rate = fxd(l, "plateau").into();
        c.max_interest_rate = fxd(l, "max").into();
    } else {
        c.curve_type = INTEREST_CURVE_SEVEN_POINT;
        c.zero_util_rate = a.get("zero").and_then(parse_u64).unwrap_or(0) as u32;
        c.hundred_util_rate = a.get("hundred").and_then(parse_u64).unwrap_or(0) as u32;
        if let Some(ps) = a.get("points").and_then(|x| x.as_array()) {
            for (i, p) in ps.iter().take(5).enumerate() {
                c.points[i] = RatePoint::new(parse_u64(&p[0]).unwrap_or(0) as u32, parse_u64(&p[1]).unwrap_or(0) as u32);
            }
        }
    }
    if let Err(e) = c.validate() {
        let name = match e {
            anchor_lang::error::Error::AnchorError(ae) => ae.error_name.clone(),
            _ => "ProgramError".into(),
        };
        return Err(name);
    }
    let mut g: MarginfiGroup = bytemuck::Zeroable::zeroed();
    if a.get("program_fees").and_then(|x| x.as_bool()).unwrap_or(false) {
        g.group_flags = 1;
        g.fee_state_cache.program_fee_fixed = fxd(&fees, "prog_fixed").into();
        g.fee_state_cache.program_fee_rate = fxd(&fees, "prog_rate").into();
    }
    let calc = c.create_interest_rate_calculator(&g);
    let mut rates = vec![];
    for u in a.get("urs").and_then(|x| x.as_array()).cloned().unwrap_or_default() {
        let ur = I80F48::from_bits(parse_i128(&u).unwrap_or(0));
        let r = std::panic::catch_unwind(std::panic::AssertUnwindSafe(|| calc.calc_interest_rate(ur)));
        match r {
            Ok(Some(x)) => rates.push(json!({"ur": big_i(ur.to_bits()), "def": true, "base": big_i(x.base_rate_apr.to_bits()),
                "lend": big_i(x.lending_rate_apr.to_bits()), "borrow": big_i(x.borrowing_rate_apr.to_bits())})),
            Ok(None) => rates.push(json!({"ur": big_i(ur.to_bits()), "def": false})),
            Err(_) => rates.push(json!({"ur": big_i(ur.to_bits()), "def": false, "panic": true})),
        }
    }
    let _ = big_u(0);
    Ok(json!({"rates": rates}))
}
