//! Replay of TLC-generated behaviours: the model's explored transitions arrive as edges
//! (parent id, child id, action); they form a tree rooted at state 0 which is walked depth-first
//! with snapshots, so each explored transition is executed exactly once on the real program.
use crate::act::Exec;
use serde_json::{json, Value};
use std::collections::BTreeMap;
use std::io::{BufRead, Write};

pub struct Summary {
    pub events: u64,
    pub ok: u64,
    pub err: u64,
    pub drift: u64,
    pub drift_samples: Vec<Value>,
    pub max_depth: usize,
}

pub fn load_edges(path: &str) -> BTreeMap<u64, Vec<(u64, Value)>> {
    let f = std::fs::File::open(path).expect("edges file");
    let mut m: BTreeMap<u64, Vec<(u64, Value)>> = BTreeMap::new();
    for line in std::io::BufReader::new(f).lines() {
        let line = line.unwrap();
        // TLC prints a TLA+ string literal: "EDGE p c {json}" with escaped quotes
        let t = line.trim();
        if !t.starts_with("\"EDGE ") {
            continue;
        }
        let unq: String = match serde_json::from_str::<String>(t) {
            Ok(s) => s,
            Err(_) => continue,
        };
        let mut it = unq.splitn(4, ' ');
        it.next();
        let p: u64 = it.next().unwrap().parse().unwrap();
        let c: u64 = it.next().unwrap().parse().unwrap();
        let a: Value = serde_json::from_str(it.next().unwrap()).expect("edge json");
        m.entry(p).or_default().push((c, a));
    }
    m
}

/// every key present in `want` must be present and equal (recursively) in `got`
fn subset_mismatch(want: &Value, got: &Value, path: &str) -> Option<String> {
    match (want, got) {
        (Value::Object(w), Value::Object(g)) => {
            for (k, v) in w {
                match g.get(k) {
                    None => return Some(format!("{}.{} missing", path, k)),
                    Some(gv) => {
                        if let Some(m) = subset_mismatch(v, gv, &format!("{}.{}", path, k)) {
                            return Some(m);
                        }
                    }
                }
            }
            None
        }
        (Value::Array(w), _) if w.is_empty() => None,
        (Value::Array(w), Value::Array(g)) => {
            // Big numbers are arrays of ints: compare whole; slot lists are arrays of objects: recurse
            if w.iter().all(|x| x.is_number()) {
                return if w == g { None } else { Some(format!("{} want {} got {}", path, want, got)) };
            }
            if w.len() != g.len() {
                return Some(format!("{} length {} vs {}", path, w.len(), g.len()));
            }
            for (i, (a, b)) in w.iter().zip(g.iter()).enumerate() {
                if let Some(m) = subset_mismatch(a, b, &format!("{}[{}]", path, i)) {
                    return Some(m);
                }
            }
            None
        }
        _ => {
            if want == got {
                None
            } else {
                Some(format!("{} want {} got {}", path, want, got))
            }
        }
    }
}

fn emit(w: &mut impl Write, ev: &str, scn: u64) {
    writeln!(w, "{}", json!({"i": 0, "scn": scn, "ev": ev, "a": {"op": ev}, "res": "ok", "code": 0, "err": "", "label": "", "failed_ix": -1, "ts": [0], "chg": {}})).unwrap();
}

fn walk(ex: &mut Exec, edges: &BTreeMap<u64, Vec<(u64, Value)>>, node: u64, depth: usize, w: &mut impl Write, sum: &mut Summary) {
    sum.max_depth = sum.max_depth.max(depth);
    let ch = match edges.get(&node) {
        Some(c) => c,
        None => return,
    };
    let multi = ch.len() > 1;
    let snap = if multi { Some(ex.snapshot()) } else { None };
    if multi {
        emit(w, "save", 0);
    }
    for (i, (child, a)) in ch.iter().enumerate() {
        if i > 0 {
            ex.restore(snap.as_ref().unwrap());
            emit(w, "restore", 0);
        }
        let ev = ex.apply(a);
        sum.events += 1;
        let ok = ev["res"] == "ok";
        if ok {
            sum.ok += 1
        } else {
            sum.err += 1
        }
        if let Some(exp) = a.get("exp").and_then(|x| x.as_str()) {
            let agree = if exp == "ok" { ok } else if exp == "err" { !ok } else { !ok && ev["err"] == exp };
            let mut why = None;
            if !agree {
                why = Some(format!("result: expected {} got {}", exp, if ok { "ok".to_string() } else { ev["err"].to_string() }));
            } else if let Some(obs) = a.get("obs") {
                let mut target = ex.last.clone();
                target.insert("out".into(), ev["out"].clone());
                why = subset_mismatch(obs, &Value::Object(target), "st");
            }
            if let Some(wy) = why {
                sum.drift += 1;
                if sum.drift_samples.len() < 10 {
                    let mut a2 = a.clone();
                    if let Some(o) = a2.as_object_mut() {
                        o.remove("obs");
                    }
                    sum.drift_samples.push(json!({"action": a2, "why": wy}));
                }
            }
        }
        writeln!(w, "{}", ev).unwrap();
        walk(ex, edges, *child, depth + 1, w, sum);
    }
    if multi {
        emit(w, "drop", 0);
    }
}

pub fn replay(edges_path: &str, setup_path: &str, out: &str, summary_path: &str) {
    let edges = load_edges(edges_path);
    let setup: Value = serde_json::from_str(&std::fs::read_to_string(setup_path).expect("setup")).expect("setup json");
    let mut ex = Exec::new();
    for a in setup.as_array().expect("setup must be a list") {
        let ev = ex.apply(a);
        if ev["res"] != "ok" {
            eprintln!("SETUP-FAILED action={} label={}", a, ev["label"]);
            std::process::exit(2);
        }
    }
    let mut w = std::io::BufWriter::new(std::fs::File::create(out).unwrap());
    let full = crate::proj::project(&ex.env);
    writeln!(w, "{}", json!({"i": 0, "scn": 0, "ev": "reset", "a": {"op": "reset", "setup": setup.clone()}, "res": "ok", "code": 0, "err": "", "label": "", "failed_ix": -1,
        "ts": crate::num::big_i(ex.env.world.clock.unix_timestamp as i128), "chg": Value::Object(full)})).unwrap();
    ex.n = 1;
    let mut sum = Summary { events: 0, ok: 0, err: 0, drift: 0, drift_samples: vec![], max_depth: 0 };
    // deep recursion: run on a big stack
    let handle = std::thread::Builder::new().stack_size(1 << 30).spawn(move || {
        walk(&mut ex, &edges, 0, 0, &mut w, &mut sum);
        w.flush().unwrap();
        sum
    }).unwrap();
    let sum = handle.join().unwrap();
    std::fs::write(summary_path, json!({"events": sum.events, "ok": sum.ok, "err": sum.err, "drift": sum.drift,
        "drift_samples": sum.drift_samples, "max_depth": sum.max_depth}).to_string()).unwrap();
}
