#![recursion_limit = "1024"]
mod act;
mod env;
mod num;
mod proj;
mod rt;
mod drv;
mod drv2;
mod tree;
mod consts;
mod pure;
mod integ;
mod venue;

use serde_json::{json, Value};
use std::io::{BufRead, BufWriter, Write};

fn usage() -> ! {
    eprintln!("usage: hx run <scenarios.ndjson> <trace-out.ndjson> | hx tree <edges> <setup.json> <trace-out> <summary-out> | hx drive <driver> <out-dir> [args...] | hx smoke");
    std::process::exit(2);
}

/// Run scenarios: each input line {"scn": id, "setup": [...], "actions": [...]}.
/// Output: one event per line; each scenario starts with a {"ev":"reset"} line carrying the full state.
fn run_file(inp: &str, out: &str) -> std::io::Result<()> {
    let f = std::fs::File::open(inp)?;
    let mut w = BufWriter::new(std::fs::File::create(out)?);
    for line in std::io::BufReader::new(f).lines() {
        let line = line?;
        if line.trim().is_empty() {
            continue;
        }
        let scn: Value = serde_json::from_str(&line).expect("bad scenario json");
        run_scenario(&scn, &mut w)?;
    }
    w.flush()
}

pub fn run_scenario(scn: &Value, w: &mut impl Write) -> std::io::Result<()> {
    let mut ex = act::Exec::new();
    let id = scn.get("scn").cloned().unwrap_or(json!(0));
    let empty = vec![];
    for a in scn.get("setup").and_then(|x| x.as_array()).unwrap_or(&empty) {
        let ev = ex.apply(a);
        if ev["res"] != "ok" && a.get("may_fail").is_none() {
            eprintln!("SETUP-FAILED scn={} action={} label={}", id, a, ev["label"]);
        }
    }
    // reset event: full state
    let full = proj::project(&ex.env);
    writeln!(w, "{}", json!({"i": 0, "scn": id, "ev": "reset", "a": {"op": "reset", "setup": scn.get("setup").cloned().unwrap_or(json!([]))}, "res": "ok", "code": 0, "err": "", "label": "", "failed_ix": -1,
        "ts": num::big_i(ex.env.world.clock.unix_timestamp as i128), "chg": Value::Object(full)}))?;
    ex.n = 1;
    for a in scn.get("actions").and_then(|x| x.as_array()).unwrap_or(&empty) {
        let mut ev = ex.apply(a);
        ev["scn"] = id.clone();
        writeln!(w, "{}", ev)?;
    }
    Ok(())
}

fn main() {
    let args: Vec<String> = std::env::args().collect();
    if args.len() < 2 {
        usage();
    }
    match args[1].as_str() {
        "run" => {
            if args.len() < 4 {
                usage();
            }
            run_file(&args[2], &args[3]).expect("io");
        }
        "drive" => {
            if args.len() < 4 {
                usage();
            }
            drv::drive(&args[2], &args[3], &args[4..]);
        }
        "smoke" => drv::smoke(),
        "consts" => consts::emit(&args[2]),
        "state" => {
            // run a setup (list of actions) and dump the projected state as one JSON object
            let setup: Value = serde_json::from_str(&std::fs::read_to_string(&args[2]).expect("setup")).expect("json");
            let mut ex = act::Exec::new();
            for a in setup.as_array().unwrap() {
                let ev = ex.apply(a);
                if ev["res"] != "ok" {
                    eprintln!("SETUP-FAILED action={} label={}", a, ev["label"]);
                    std::process::exit(2);
                }
            }
            std::fs::write(&args[3], Value::Object(proj::project(&ex.env)).to_string()).expect("write");
        }
        "tree" => {
            if args.len() < 6 {
                usage();
            }
            tree::replay(&args[2], &args[3], &args[4], &args[5]);
        }
        _ => usage(),
    }
}
