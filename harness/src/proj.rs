//! Projection: account bytes -> abstract state (the state variables of spec/Marginfi.tla).
use crate::env::Env;
use crate::num::{big_i, big_u, wfx};
use marginfi_type_crate::types::{
    Bank, FeeState, LiquidationRecord, MarginfiAccount, MarginfiGroup, StakedSettings,
};
use serde_json::{json, Map, Value};
use solana_program::pubkey::Pubkey;

fn bits(flags: u64) -> Value {
    Value::Array((0..64).filter(|i| flags & (1u64 << i) != 0).map(|i| json!(i)).collect())
}

fn digest(parts: &[&[u8]]) -> Value {
    let mut h: u32 = 0x811c9dc5;
    for p in parts {
        for b in p.iter() {
            h ^= *b as u32;
            h = h.wrapping_mul(0x01000193);
        }
    }
    json!(h & 0x3fff_ffff)
}

fn u64_of(bytes: &[u8; 8]) -> u64 {
    u64::from_le_bytes(*bytes)
}

pub fn key_big(k: &Pubkey) -> Value {
    big_u(u128::from_be_bytes(k.to_bytes()[..16].try_into().unwrap()))
}

pub fn proj_bank(env: &Env, bk: &Pubkey, b: &Bank) -> Value {
    let n = |k: &Pubkey| env.names.name(k);
    let c = &b.config;
    let irc = &c.interest_rate_config;
    let pts: Vec<Value> = irc.points.iter().map(|p| json!([big_u(p.util as u128), big_u(p.rate as u128)])).collect();
    let entries: Vec<Value> = b
        .emode
        .emode_config
        .entries
        .iter()
        .map(|e| {
            json!({"tag": e.collateral_bank_emode_tag, "flags": e.flags, "init": wfx(&e.asset_weight_init), "maint": wfx(&e.asset_weight_maint)})
        })
        .collect();
    let okeys: Vec<Value> = c.oracle_keys.iter().map(|k| json!(n(k))).collect();
    json!({
        "key": key_big(bk),
        "group": n(&b.group), "mint": n(&b.mint), "dec": b.mint_decimals,
        "asv": wfx(&b.asset_share_value), "lsv": wfx(&b.liability_share_value),
        "tas": wfx(&b.total_asset_shares), "tls": wfx(&b.total_liability_shares),
        "fee_ins": wfx(&b.collected_insurance_fees_outstanding),
        "fee_grp": wfx(&b.collected_group_fees_outstanding),
        "fee_prog": wfx(&b.collected_program_fees_outstanding),
        "last_update": big_i(b.last_update as i128),
        "flags": bits(b.flags),
        "vault_liq": n(&b.liquidity_vault), "vault_ins": n(&b.insurance_vault), "vault_fee": n(&b.fee_vault),
        "bumps": [b.liquidity_vault_bump, b.liquidity_vault_authority_bump, b.insurance_vault_bump, b.insurance_vault_authority_bump, b.fee_vault_bump, b.fee_vault_authority_bump],
        "emis_rate": big_u(b.emissions_rate as u128), "emis_rem": wfx(&b.emissions_remaining), "emis_mint": n(&b.emissions_mint),
        "fees_dest": n(&b.fees_destination_account),
        "lend_cnt": b.lending_position_count, "borrow_cnt": b.borrowing_position_count,
        "integ": [n(&b.integration_acc_1), n(&b.integration_acc_2), n(&b.integration_acc_3)],
        "cfg": {
            "aw_init": wfx(&c.asset_weight_init), "aw_maint": wfx(&c.asset_weight_maint),
            "lw_init": wfx(&c.liability_weight_init), "lw_maint": wfx(&c.liability_weight_maint),
            "deposit_limit": big_u(c.deposit_limit as u128), "borrow_limit": big_u(c.borrow_limit as u128),
            "init_limit": big_u(c.total_asset_value_init_limit as u128),
            "op_state": c.operational_state as u8, "oracle_setup": c.oracle_setup as u8, "oracle_keys": okeys,
            "risk_tier": c.risk_tier as u8, "asset_tag": c.asset_tag, "config_flags": c.config_flags,
            "oracle_max_age": c.oracle_max_age, "oracle_max_conf": big_u(c.oracle_max_confidence as u128),
            "fixed_price": wfx(&c.fixed_price),
            "ir": {
                "opt_util": wfx(&irc.optimal_utilization_rate), "plateau": wfx(&irc.plateau_interest_rate), "max_rate": wfx(&irc.max_interest_rate),
                "ins_fixed": wfx(&irc.insurance_fee_fixed_apr), "ins_ir": wfx(&irc.insurance_ir_fee),
                "grp_fixed": wfx(&irc.protocol_fixed_fee_apr), "grp_ir": wfx(&irc.protocol_ir_fee),
                "orig_fee": wfx(&irc.protocol_origination_fee),
                "zero": big_u(irc.zero_util_rate as u128), "hundred": big_u(irc.hundred_util_rate as u128),
                "points": pts, "curve_type": irc.curve_type,
            },
        },
        "emode": {"tag": b.emode.emode_tag, "flags": big_u(b.emode.flags as u128), "ts": big_i(b.emode.timestamp as i128), "entries": entries},
        "cache": {
            "base": big_u(b.cache.base_rate as u128), "lend": big_u(b.cache.lending_rate as u128), "borrow": big_u(b.cache.borrowing_rate as u128),
            "acc_for": big_u(b.cache.interest_accumulated_for as u128), "acc": wfx(&b.cache.accumulated_since_last_update),
            "price": wfx(&b.cache.last_oracle_price), "price_ts": big_i(b.cache.last_oracle_price_timestamp as i128),
            "price_conf": wfx(&b.cache.last_oracle_price_confidence),
        },
        "pad": digest(&[&b._pad0, &b._pad1, &b._pad2, &b._padding_0, bytemuck::bytes_of(&b._padding_1), &c._pad0, &c._pad1, &c._padding0, &c._padding1,
            &irc._pad0, &irc._padding1, &irc._padding2, &irc._padding3, &b.emode.pad0]),
    })
}

pub fn proj_account(env: &Env, a: &MarginfiAccount) -> Value {
    let n = |k: &Pubkey| env.names.name(k);
    let bal: Vec<Value> = a
        .lending_account
        .balances
        .iter()
        .map(|b| {
            if b.active != 0 {
                json!({"act": 1, "bank": n(&b.bank_pk), "key": key_big(&b.bank_pk),
                    "tag": b.bank_asset_tag, "a": wfx(&b.asset_shares), "l": wfx(&b.liability_shares),
                    "emis": wfx(&b.emissions_outstanding), "lu": big_u(b.last_update as u128)})
            } else {
                // inactive slots: still report leftovers so "empty_deactivated" is observable
                let clean = b.bank_pk == Pubkey::default()
                    && b.asset_shares.value == [0u8; 16]
                    && b.liability_shares.value == [0u8; 16]
                    && b.emissions_outstanding.value == [0u8; 16];
                json!({"act": 0, "clean": clean})
            }
        })
        .collect();
    let hc = &a.health_cache;
    json!({
        "group": n(&a.group), "auth": n(&a.authority), "flags": bits(a.account_flags), "bal": bal,
        "emis_dest": n(&a.emissions_destination_account),
        "mig_from": n(&a.migrated_from), "mig_to": n(&a.migrated_to),
        "last_update": big_u(a.last_update as u128),
        "index": a.account_index, "third_party": a.third_party_index, "bump": a.bump,
        "liq_rec": n(&a.liquidation_record),
        "health": {
            "av": wfx(&hc.asset_value), "lv": wfx(&hc.liability_value),
            "avm": wfx(&hc.asset_value_maint), "lvm": wfx(&hc.liability_value_maint),
            "ave": wfx(&hc.asset_value_equity), "lve": wfx(&hc.liability_value_equity),
            "ts": big_i(hc.timestamp as i128), "flags": hc.flags, "mrgn_err": hc.mrgn_err,
            "internal_err": hc.internal_err, "liq_err": hc.internal_liq_err, "bk_err": hc.internal_bankruptcy_err,
        },
        "pad": digest(&[bytemuck::bytes_of(&a.lending_account._padding), &a._pad0, bytemuck::bytes_of(&a._padding0)]),
    })
}

pub fn proj_group(env: &Env, g: &MarginfiGroup) -> Value {
    let n = |k: &Pubkey| env.names.name(k);
    json!({
        "admin": n(&g.admin), "emode_admin": n(&g.emode_admin), "curve_admin": n(&g.delegate_curve_admin),
        "limit_admin": n(&g.delegate_limit_admin), "emissions_admin": n(&g.delegate_emissions_admin),
        "metadata_admin": n(&g.metadata_admin), "risk_admin": n(&g.risk_admin),
        "flags": bits(g.group_flags), "banks": g.banks,
        "fee_cache": {"wallet": n(&g.fee_state_cache.global_fee_wallet), "fixed": wfx(&g.fee_state_cache.program_fee_fixed),
                      "rate": wfx(&g.fee_state_cache.program_fee_rate), "ts": big_i(g.fee_state_cache.last_update as i128)},
        "panic_cache": {"flags": g.panic_state_cache.pause_flags, "start": big_i(g.panic_state_cache.pause_start_timestamp as i128),
                        "ts": big_i(g.panic_state_cache.last_cache_update as i128)},
        "delev": {"limit": big_u(g.deleverage_withdraw_window_cache.daily_limit as u128),
                  "today": big_u(g.deleverage_withdraw_window_cache.withdrawn_today as u128),
                  "reset": big_i(g.deleverage_withdraw_window_cache.last_daily_reset_timestamp as i128)},
        "emode_max_init": big_u(g.emode_max_init_leverage as u128), "emode_max_maint": big_u(g.emode_max_maint_leverage as u128),
        "pad": digest(&[&g.pad0, &g._padding, bytemuck::bytes_of(&g._padding_0), bytemuck::bytes_of(&g._padding_1), &g.panic_state_cache._reserved]),
    })
}

pub fn proj_fee(env: &Env, f: &FeeState) -> Value {
    let n = |k: &Pubkey| env.names.name(k);
    let p = &f.panic_state;
    json!({
        "admin": n(&f.global_fee_admin), "wallet": n(&f.global_fee_wallet),
        "bank_init_fee": big_u(f.bank_init_flat_sol_fee as u128), "liq_flat_fee": big_u(f.liquidation_flat_sol_fee as u128),
        "liq_max_fee": wfx(&f.liquidation_max_fee), "prog_fixed": wfx(&f.program_fee_fixed), "prog_rate": wfx(&f.program_fee_rate),
        "panic": {"flags": p.pause_flags, "daily": p.daily_pause_count, "consec": p.consecutive_pause_count,
                  "start": big_i(p.pause_start_timestamp as i128), "reset": big_i(p.last_daily_reset_timestamp as i128)},
    })
}

pub fn proj_liqrec(env: &Env, r: &LiquidationRecord) -> Value {
    let n = |k: &Pubkey| env.names.name(k);
    let entries: Vec<Value> = r
        .entries
        .iter()
        .map(|e| json!({"seized": big_u(u64_of(&e.asset_amount_seized) as u128), "repaid": big_u(u64_of(&e.liab_amount_repaid) as u128), "ts": big_i(e.timestamp as i128)}))
        .collect();
    json!({
        "acct": n(&r.marginfi_account), "payer": n(&r.record_payer), "receiver": n(&r.liquidation_receiver),
        "cache": {"avm": wfx(&r.cache.asset_value_maint), "lvm": wfx(&r.cache.liability_value_maint),
                  "ave": wfx(&r.cache.asset_value_equity), "lve": wfx(&r.cache.liability_value_equity)},
        "entries": entries,
    })
}

pub fn proj_staked(env: &Env, s: &StakedSettings) -> Value {
    let n = |k: &Pubkey| env.names.name(k);
    json!({
        "group": n(&s.marginfi_group), "oracle": n(&s.oracle), "aw_init": wfx(&s.asset_weight_init), "aw_maint": wfx(&s.asset_weight_maint),
        "deposit_limit": big_u(s.deposit_limit as u128), "init_limit": big_u(s.total_asset_value_init_limit as u128),
        "oracle_max_age": s.oracle_max_age, "risk_tier": s.risk_tier as u8,
    })
}

fn zc<T: bytemuck::Pod>(data: &[u8]) -> Option<T> {
    let sz = std::mem::size_of::<T>();
    if data.len() < 8 + sz {
        return None;
    }
    Some(bytemuck::pod_read_unaligned::<T>(&data[8..8 + sz]))
}

/// Full projection, as a map "section" -> name -> record.
pub fn project(env: &Env) -> Map<String, Value> {
    use marginfi_type_crate::constants::discriminators as d;
    let mut banks = Map::new();
    let mut accts = Map::new();
    let mut groups = Map::new();
    let mut tok = Map::new();
    let mut liqrec = Map::new();
    let mut staked = Map::new();
    let mut other = Map::new();
    let mut fee = json!({});
    for (k, a) in env.world.accts.iter() {
        let name = env.names.name(k);
        if a.owner == marginfi::ID && a.data.len() >= 8 {
            let disc: [u8; 8] = a.data[..8].try_into().unwrap();
            if disc == d::BANK {
                if let Some(b) = zc::<Bank>(&a.data) {
                    banks.insert(name, proj_bank(env, k, &b));
                }
            } else if disc == d::ACCOUNT {
                if let Some(x) = zc::<MarginfiAccount>(&a.data) {
                    accts.insert(name, proj_account(env, &x));
                }
            } else if disc == d::GROUP {
                if let Some(x) = zc::<MarginfiGroup>(&a.data) {
                    groups.insert(name, proj_group(env, &x));
                }
            } else if disc == d::FEE_STATE {
                if let Some(x) = zc::<FeeState>(&a.data) {
                    fee = proj_fee(env, &x);
                }
            } else if disc == d::LIQUIDATION_RECORD {
                if let Some(x) = zc::<LiquidationRecord>(&a.data) {
                    liqrec.insert(name, proj_liqrec(env, &x));
                }
            } else if disc == d::STAKED_SETTINGS {
                if let Some(x) = zc::<StakedSettings>(&a.data) {
                    staked.insert(name, proj_staked(env, &x));
                }
            } else {
                other.insert(name, digest(&[&a.data]));
            }
        } else if (a.owner == spl_token::ID || a.owner == spl_token_2022::ID) && a.data.len() >= 165 && (a.data.len() == 165 || a.data[165] == 2) {
            let mint = Pubkey::new_from_array(a.data[0..32].try_into().unwrap());
            let owner = Pubkey::new_from_array(a.data[32..64].try_into().unwrap());
            let amount = u64::from_le_bytes(a.data[64..72].try_into().unwrap());
            let mut withheld: u64 = 0;
            if a.owner == spl_token_2022::ID && a.data.len() > 165 {
                use spl_token_2022::extension::{BaseStateWithExtensions, StateWithExtensions};
                if let Ok(s) = StateWithExtensions::<spl_token_2022::state::Account>::unpack(&a.data) {
                    if let Ok(e) = s.get_extension::<spl_token_2022::extension::transfer_fee::TransferFeeAmount>() {
                        withheld = u64::from(e.withheld_amount);
                    }
                }
            }
            tok.insert(
                name,
                json!({"mint": env.names.name(&mint), "owner": env.names.name(&owner), "amount": big_u(amount as u128), "withheld": big_u(withheld as u128)}),
            );
        } else if a.owner == solana_program::system_program::ID && a.data.is_empty() {
            // wallets: lamports matter for flat SOL fees
            other.insert(name, json!({"lamports": big_u(a.lamports as u128)}));
        }
    }
    let mut m = Map::new();
    m.insert("clock".into(), json!({"ts": big_i(env.world.clock.unix_timestamp as i128), "slot": big_u(env.world.clock.slot as u128)}));
    m.insert("fee".into(), fee);
    m.insert("groups".into(), Value::Object(groups));
    m.insert("banks".into(), Value::Object(banks));
    m.insert("accts".into(), Value::Object(accts));
    m.insert("tok".into(), Value::Object(tok));
    m.insert("liqrec".into(), Value::Object(liqrec));
    m.insert("staked".into(), Value::Object(staked));
    m.insert("wallets".into(), Value::Object(other));
    let mut orc = Map::new();
    for (n, o) in env.oracles.iter() {
        let live = env.world.get(&o.key).is_some();
        orc.insert(
            n.clone(),
            json!({"kind": if o.kind == crate::env::OracleKind::Pyth {"pyth"} else {"swb"},
                "price": big_i(o.price as i128), "conf": big_u(o.conf as u128), "ema": big_i(o.ema_price as i128), "ema_conf": big_u(o.ema_conf as u128),
                "expo": o.expo, "ts": big_i(o.publish_time as i128), "swb_value": big_i(o.swb_value), "swb_std": big_i(o.swb_std),
                "owner_ok": (o.kind == crate::env::OracleKind::Pyth && o.owner == pyth_solana_receiver_sdk::ID) || (o.kind == crate::env::OracleKind::Swb && o.owner == marginfi::constants::SWITCHBOARD_PULL_ID),
                "discr_ok": o.discr_ok, "verif_ok": o.verification_full, "live": live}),
        );
    }
    m.insert("oracles".into(), Value::Object(orc));
    let mut pools = Map::new();
    for (n, p) in env.pools.iter() {
        let (stake, supply) = env.pool_numbers(p);
        pools.insert(
            n.clone(),
            json!({"mint": env.names.name(&p.mint), "sol_pool": env.names.name(&p.sol_pool), "stake": big_u(stake as u128), "supply": big_u(supply as u128), "state": p.state}),
        );
    }
    m.insert("pools".into(), Value::Object(pools));
    let mut reserves = Map::new();
    for (n, ri) in env.reserves.iter() {
        use kamino_mocks::state::MinimalReserve;
        if let Some(a) = env.world.get(&ri.reserve) {
            let sz = std::mem::size_of::<MinimalReserve>();
            if a.data.len() >= 8 + sz {
                let r: MinimalReserve = bytemuck::pod_read_unaligned(&a.data[8..8 + sz]);
                let u = |b: [u8; 16]| big_u(u128::from_le_bytes(b));
                reserves.insert(
                    n.clone(),
                    json!({"mint": ri.mint_name, "dec": r.mint_decimals, "avail": big_u(r.available_amount as u128), "supply": big_u(r.mint_total_supply as u128),
                           "borrowed_sf": u(r.borrowed_amount_sf), "protocol_sf": u(r.accumulated_protocol_fees_sf), "referrer_sf": u(r.accumulated_referrer_fees_sf),
                           "pending_sf": u(r.pending_referrer_fees_sf), "slot": big_u(r.slot as u128), "vault": env.names.name(&ri.supply_vault),
                           "owner_ok": a.owner == marginfi::constants::KAMINO_PROGRAM_ID}),
                );
            }
        }
    }
    // Solend reserves share the section (kind = "solend"; the 10^18-scaled components instead of the 2^60-scaled ones)
    for (n, ri) in env.sreserves.iter() {
        use solend_mocks::state::{SolendMinimalReserve, RESERVE_LEN};
        if let Some(a) = env.world.get(&ri.reserve) {
            if a.data.len() == RESERVE_LEN {
                let r: SolendMinimalReserve = bytemuck::pod_read_unaligned(&a.data[1..RESERVE_LEN]);
                let u = |b: [u8; 16]| big_u(u128::from_le_bytes(b));
                let (av, sup, sl) = (r.liquidity_available_amount, r.collateral_mint_total_supply, r.last_update_slot);
                reserves.insert(
                    n.clone(),
                    json!({"kind": "solend", "mint": ri.mint_name, "dec": r.liquidity_mint_decimals, "avail": big_u(av as u128), "supply": big_u(sup as u128),
                           "borrowed_wads": u(r.liquidity_borrowed_amount_wads), "fees_wads": u(r.liquidity_accumulated_protocol_fees_wads),
                           "slot": big_u(sl as u128), "vault": env.names.name(&ri.supply_vault),
                           "owner_ok": a.owner == marginfi::constants::SOLEND_PROGRAM_ID && a.data[0] == 1}),
                );
            }
        }
    }
    m.insert("reserves".into(), Value::Object(reserves));
    // venue obligations (the banks' claims on the venue): any account of the venue program carrying the obligation discriminator
    let mut obls = Map::new();
    for (k, a) in env.world.accts.iter() {
        use kamino_mocks::state::{MinimalObligation, OBLIGATION_DISCRIMINATOR};
        let sz = std::mem::size_of::<MinimalObligation>();
        if a.owner == marginfi::constants::KAMINO_PROGRAM_ID && a.data.len() >= 8 + sz && a.data[..8] == OBLIGATION_DISCRIMINATOR {
            let o: MinimalObligation = bytemuck::pod_read_unaligned(&a.data[8..8 + sz]);
            let others: u128 = o.deposits.iter().skip(1).map(|d| d.deposited_amount as u128).sum();
            obls.insert(
                env.names.name(k),
                json!({"owner": env.names.name(&o.owner), "reserve": env.names.name(&o.deposits[0].deposit_reserve),
                       "amount": big_u(o.deposits[0].deposited_amount as u128), "other_deposits": big_u(others)}),
            );
        }
    }
    // Solend obligations (1300-byte layout of solend_mocks::state): owner, first deposit
    for (k, a) in env.world.accts.iter() {
        if a.owner == marginfi::constants::SOLEND_PROGRAM_ID && a.data.len() == solend_mocks::state::OBLIGATION_LEN && a.data[0] == 1 {
            let pk = |o: usize| solana_program::pubkey::Pubkey::new_from_array(a.data[o..o + 32].try_into().unwrap());
            let amt = if a.data[202] >= 1 { u64::from_le_bytes(a.data[236..244].try_into().unwrap()) } else { 0 };
            obls.insert(
                env.names.name(k),
                json!({"owner": env.names.name(&pk(42)), "reserve": env.names.name(&pk(204)), "amount": big_u(amt as u128), "other_deposits": big_u(if a.data[202] > 1 { 1 } else { 0 })}),
            );
        }
    }
    // Drift users (the banks' claims on that venue) go into the same section: amount = scaled balance of the bank's position
    for (k, a) in env.world.accts.iter() {
        use drift_mocks::state::{MinimalUser, USER_DISCRIMINATOR};
        let sz = std::mem::size_of::<MinimalUser>();
        if a.owner == marginfi::constants::DRIFT_PROGRAM_ID && a.data.len() >= 8 + sz && a.data[..8] == USER_DISCRIMINATOR {
            let u: MinimalUser = bytemuck::pod_read_unaligned(&a.data[8..8 + sz]);
            let p1 = &u.spot_positions[1];
            let p0 = &u.spot_positions[0];
            let (amt, idx) = if p1.market_index != 0 || p1.scaled_balance > 0 { (p1.scaled_balance, p1.market_index) } else { (p0.scaled_balance, p0.market_index) };
            let others: u128 = u.spot_positions.iter().skip(2).map(|d| d.scaled_balance as u128).sum();
            obls.insert(
                env.names.name(k),
                json!({"owner": env.names.name(&u.authority), "reserve": format!("market#{}", idx), "amount": big_u(amt as u128), "other_deposits": big_u(others)}),
            );
        }
    }
    m.insert("obligations".into(), Value::Object(obls));
    let mut markets = Map::new();
    for (n, mi) in env.markets.iter() {
        use drift_mocks::state::MinimalSpotMarket;
        if let Some(a) = env.world.get(&mi.market) {
            let sz = std::mem::size_of::<MinimalSpotMarket>();
            if a.data.len() >= 8 + sz {
                let r: MinimalSpotMarket = bytemuck::pod_read_unaligned(&a.data[8..8 + sz]);
                markets.insert(
                    n.clone(),
                    json!({"mint": mi.mint_name, "dec": r.decimals, "cum": big_u(u128::from_le_bytes(r.cumulative_deposit_interest)), "ts": big_u(r.last_interest_ts as u128),
                           "index": r.market_index, "vault": env.names.name(&mi.vault), "owner_ok": a.owner == marginfi::constants::DRIFT_PROGRAM_ID}),
                );
            }
        }
    }
    m.insert("markets".into(), Value::Object(markets));
    let mut mints = Map::new();
    for (n, mi) in env.mints.iter() {
        // (the fee in force at the current epoch, read from the mint account: a scheduled change takes over at its epoch)
        let (bps, maxf) = env.fee_in_force(&mi.key).unwrap_or((mi.fee_bps, mi.max_fee));
        let (bps, maxf) = if mi.fee_bps == 0 && bps == 0 { (0, mi.max_fee) } else { (bps, maxf) };
        mints.insert(n.clone(), json!({"dec": mi.decimals, "prog": env.names.name(&mi.program), "fee_bps": bps, "max_fee": big_u(maxf as u128)}));
    }
    m.insert("mints".into(), Value::Object(mints));
    m
}

/// delta(pre, post): for each section, the entries of post that differ from pre, plus "del" names.
pub fn delta(pre: &Map<String, Value>, post: &Map<String, Value>) -> Value {
    let mut out = Map::new();
    for (sec, pv) in post.iter() {
        match (pre.get(sec), pv) {
            (Some(Value::Object(po)), Value::Object(no)) if sec != "clock" && sec != "fee" => {
                let mut ch = Map::new();
                for (k, v) in no.iter() {
                    if po.get(k) != Some(v) {
                        ch.insert(k.clone(), v.clone());
                    }
                }
                let del: Vec<Value> = po.keys().filter(|k| !no.contains_key(*k)).map(|k| json!(k)).collect();
                if !ch.is_empty() {
                    out.insert(sec.clone(), Value::Object(ch));
                }
                if !del.is_empty() {
                    out.insert(format!("del_{}", sec), Value::Array(del));
                }
            }
            (prev, v) => {
                if prev != Some(v) {
                    out.insert(sec.clone(), v.clone());
                }
            }
        }
    }
    Value::Object(out)
}
