//! edge driver: episodes that need an exact coincidence to manifest (equalities, whole-unit boundaries with
//! fractional totals, a step taken in between two that usually follow each other). Every episode is a short
//! real execution; TLC judges the traces with the same predicates as everywhere else.
use crate::drv::{asset_amount, base_setup, pick, search_boundary, Recorder};
use fixed::types::I80F48;
use rand::{rngs::StdRng, Rng, SeedableRng};
use serde_json::{json, Value};

fn plain_bank(name: &str, dec: u8, kind: &str, price: &str, cfg: Value, out: &mut Vec<Value>) {
    let mint = format!("M.{}", name);
    out.push(json!({"op":"add_mint","mint":mint,"decimals":dec,"kind":kind,"fee_bps":100,"max_fee":5000}));
    out.push(json!({"op":"add_bank","group":"G1","bank":name,"mint":mint,"cfg":cfg}));
    out.push(json!({"op":"set_fixed_price","bank":name,"price":price}));
}

pub fn edge_driver(out: &str, seed: u64, n: u64) {
    let mut rng = StdRng::seed_from_u64(seed ^ 0xed6e);
    let mut r = Recorder::new(&format!("{}/edge.trace", out), base_setup());
    let (mut nbk, mut nkill, mut nclose, mut nutil) = (0u64, 0u64, 0u64, 0u64);
    for k in 0..n {
        match k % 15 {
            0 => {
                // ---- exact wipe: the sole borrower drew every deposited token (or all but delta), no fees, no time (or a
                // second), empty or tiny insurance; collateral made worthless; bankruptcy. Uncovered loss =, <, > deposits.
                let dec = *pick(&mut rng, &[6u8, 9, 2]);
                let x: u64 = *pick(&mut rng, &[1_000_000u64, 123_456_789, 7, 50_000_000_000]);
                // (loss = deposits, deposits - 1, deposits - 2; insurance empty, a unit, half, all, more than the debt)
                let combos: [(u64, u64); 8] = [(0, 0), (1, 0), (0, 1), (0, x.saturating_add(5)), (2, 0), (0, x / 2), (0, x.saturating_mul(3)), (1, x)];
                let (delta, ins) = combos[((k / 15) % 8) as usize];
                let two_lenders = rng.gen_bool(0.4);
                let mut extra = vec![];
                plain_bank("D1", dec, "spl", "1", json!({"ir":{"orig_fee":"0"}}), &mut extra);
                plain_bank("C1", 6, "spl", "1", json!({"aw_init":"1","aw_maint":"1"}), &mut extra);
                extra.push(json!({"op":"fund","user":"U9","mint":"M.D1","amount":"4000000000000000000"}));
                extra.push(json!({"op":"fund","user":"U2","mint":"M.D1","amount":"4000000000000000000"}));
                extra.push(json!({"op":"fund","user":"U1","mint":"M.C1","amount":"4000000000000000000"}));
                r.begin(&extra);
                if two_lenders {
                    r.act(json!({"op":"deposit","acct":"LP","bank":"D1","amount":x - x / 3}));
                    r.act(json!({"op":"deposit","acct":"A2","bank":"D1","amount":x / 3 + delta}));
                } else {
                    r.act(json!({"op":"deposit","acct":"LP","bank":"D1","amount":x + delta}));
                }
                // collateral worth far more than the debt at $1 (both priced 1; decimals differ)
                let need: u128 = (x as u128) * 10u128.pow(6) / 10u128.pow(dec as u32) * 4 + 10_000_000;
                r.act(json!({"op":"deposit","acct":"A1","bank":"C1","amount":need.to_string()}));
                r.act(json!({"op":"borrow","acct":"A1","bank":"D1","amount":x}));
                if rng.gen_bool(0.3) {
                    r.act(json!({"op":"tick","dt": *pick(&mut rng, &[1i64, 3600])}));
                }
                if ins > 0 {
                    r.act(json!({"op":"fund_vault","mint":"M.D1","dst":"D1.ins","amount":ins.to_string()}));
                }
                r.act(json!({"op":"set_fixed_price","bank":"C1","price":"1/100000000000"}));
                let ev = r.act(json!({"op":"bankruptcy","acct":"A1","bank":"D1"}));
                if ev["res"] == "ok" {
                    nbk += 1;
                }
                let killed = r.ex.bank("D1").map(|b| b.config.operational_state as u8 == 3).unwrap_or(false);
                if killed {
                    nkill += 1;
                }
                // afterwards: what lenders and newcomers can do with the bank
                r.act(json!({"op":"deposit","acct":"LP","bank":"D1","amount":1000}));
                r.act(json!({"op":"withdraw","acct":"LP","bank":"D1","amount":1}));
                r.act(json!({"op":"withdraw","acct":"LP","bank":"D1","amount":0,"all":true}));
                r.act(json!({"op":"borrow","acct":"A2","bank":"D1","amount":1}));
                r.act(json!({"op":"accrue","bank":"D1"}));
                r.act(json!({"op":"configure_bank","bank":"D1","cfg":{"op_state":1}}));
                r.act(json!({"op":"deposit","acct":"LP","bank":"D1","amount":1000}));
            }
            1 => {
                // ---- an account whose collateral was seized completely while debt remains: it is not empty. Closing it,
                // moving it, closing the emptied balance; then the same after the debt was written off.
                let mut extra = vec![];
                plain_bank("D1", 6, "spl", "1", json!({"ir":{"orig_fee":"0"}}), &mut extra);
                plain_bank("C1", *pick(&mut rng, &[6u8, 9]), *pick(&mut rng, &["spl", "t22"]), "1", json!({"aw_init":"0.8","aw_maint":"0.9"}), &mut extra);
                extra.push(json!({"op":"fund","user":"U9","mint":"M.D1","amount":"4000000000000000000"}));
                extra.push(json!({"op":"fund","user":"U2","mint":"M.D1","amount":"4000000000000000000"}));
                extra.push(json!({"op":"fund","user":"U1","mint":"M.C1","amount":"4000000000000000000"}));
                r.begin(&extra);
                let camt: u64 = *pick(&mut rng, &[1_000_000u64, 777_777_777, 31_000_000_000]);
                r.act(json!({"op":"deposit","acct":"LP","bank":"D1","amount":"1000000000000"}));
                r.act(json!({"op":"deposit","acct":"A2","bank":"D1","amount":"1000000000000"}));
                r.act(json!({"op":"deposit","acct":"A1","bank":"C1","amount":camt}));
                let mkb = |x: u64| json!({"op":"borrow","acct":"A1","bank":"D1","amount":x});
                if let Some((lo, _)) = search_boundary(&mut r, &mkb, 900_000_000_000, "RiskEngineInitRejected") {
                    if lo > 0 {
                        r.act(mkb(lo));
                    }
                }
                if rng.gen_bool(0.5) {
                    r.act(json!({"op":"tick","dt": *pick(&mut rng, &[3600i64, 2_592_000])}));
                }
                // collateral now worth a fraction of the debt: seize all of it
                r.act(json!({"op":"set_fixed_price","bank":"C1","price": *pick(&mut rng, &["1/10", "1/1000", "1/3"])}));
                let mkl = |x: u64| json!({"op":"liquidate","liquidator":"A2","liquidatee":"A1","asset_bank":"C1","liab_bank":"D1","amount":x});
                for _ in 0..3 {
                    if r.probe(&mkl(1))["res"] != "ok" {
                        break;
                    }
                    let (mut a, mut b) = (1u64, camt.saturating_add(10));
                    while b - a > 1 {
                        let mid = a + (b - a) / 2;
                        if r.probe(&mkl(mid))["res"] == "ok" {
                            a = mid;
                        } else {
                            b = mid;
                        }
                    }
                    r.act(mkl(a));
                }
                // debt without collateral
                r.fork(&mut |r: &mut Recorder| {
                    if r.act(json!({"op":"close_account","acct":"A1"}))["res"] == "ok" {
                        nclose += 1;
                    }
                });
                r.fork(&mut |r: &mut Recorder| {
                    r.act(json!({"op":"close_balance","acct":"A1","bank":"C1"}));
                    r.act(json!({"op":"close_account","acct":"A1"}));
                });
                r.fork(&mut |r: &mut Recorder| {
                    r.act(json!({"op":"withdraw","acct":"A1","bank":"C1","amount":0,"all":true}));
                    r.act(json!({"op":"close_account","acct":"A1"}));
                    r.act(json!({"op":"close_balance","acct":"A1","bank":"D1"}));
                    r.act(json!({"op":"close_account","acct":"A1"}));
                });
                r.fork(&mut |r: &mut Recorder| {
                    r.act(json!({"op":"transfer_account","acct":"A1","new_acct":"A1n","new_authority":"U7"}));
                    r.act(json!({"op":"close_account","acct":"A1"}));
                    r.act(json!({"op":"close_account","acct":"A1n","signer":"U7"}));
                });
                r.act(json!({"op":"set_fixed_price","bank":"C1","price":"1/100000000000"}));
                if r.act(json!({"op":"bankruptcy","acct":"A1","bank":"D1"}))["res"] == "ok" {
                    nbk += 1;
                }
                r.act(json!({"op":"close_account","acct":"A1"}));
                // the liquidator and the lender, on the other hand, can leave once they are empty
                r.fork(&mut |r: &mut Recorder| {
                    r.act(json!({"op":"close_account","acct":"LP"}));
                    r.act(json!({"op":"withdraw","acct":"LP","bank":"D1","amount":0,"all":true}));
                    if r.act(json!({"op":"close_account","acct":"LP"}))["res"] == "ok" {
                        nclose += 1;
                    }
                });
            }
            2 => {
                // ---- utilization at the whole-unit boundary with fractional totals: after interest accrued, deposits and
                // debt both carry a fraction; the largest borrow / withdrawal the bank accepts is found by bisection
                // (no borrow limit), and the amounts around it are recorded.
                let mut extra = vec![];
                let dec = *pick(&mut rng, &[6u8, 9, 0]);
                plain_bank("D1", dec, *pick(&mut rng, &["spl", "t22"]), "1",
                    json!({"ir":{"orig_fee": *pick(&mut rng, &["0", "0", "0.005"]), "ins_ir": *pick(&mut rng, &["0", "0.05"]), "grp_fixed": *pick(&mut rng, &["0", "0.01"])}}), &mut extra);
                plain_bank("C1", 6, "spl", "1", json!({"aw_init":"1","aw_maint":"1"}), &mut extra);
                extra.push(json!({"op":"fund","user":"U9","mint":"M.D1","amount":"4000000000000000000"}));
                extra.push(json!({"op":"fund","user":"U2","mint":"M.D1","amount":"4000000000000000000"}));
                extra.push(json!({"op":"fund","user":"U1","mint":"M.C1","amount":"4000000000000000000"}));
                extra.push(json!({"op":"fund","user":"U2","mint":"M.C1","amount":"4000000000000000000"}));
                r.begin(&extra);
                let dep: u64 = *pick(&mut rng, &[1_000_000u64, 987_654_321, 40_000, 5_000_000_000_000]);
                r.act(json!({"op":"deposit","acct":"LP","bank":"D1","amount":dep}));
                r.act(json!({"op":"deposit","acct":"A1","bank":"C1","amount":"1000000000000000000"}));
                r.act(json!({"op":"deposit","acct":"A2","bank":"C1","amount":"1000000000000000000"}));
                r.act(json!({"op":"borrow","acct":"A1","bank":"D1","amount": dep / 10 * *pick(&mut rng, &[3u64, 7, 9])}));
                for _ in 0..rng.gen_range(1..4) {
                    r.act(json!({"op":"tick","dt": *pick(&mut rng, &[3600i64, 86_400, 2_592_000, 31_536_000, 12_345])}));
                    r.act(json!({"op":"accrue","bank":"D1"}));
                    if rng.gen_bool(0.3) {
                        r.act(json!({"op":"collect_fees","bank":"D1"}));
                    }
                }
                let who = *pick(&mut rng, &["A1", "A2"]);
                let mkb = |x: u64| json!({"op":"borrow","acct":who,"bank":"D1","amount":x});
                if let Some((lo, hi)) = search_boundary(&mut r, &mkb, dep.saturating_add(2), "IllegalUtilizationRatio") {
                    nutil += 1;
                    for amt in [hi + 1, hi, lo, lo.saturating_sub(1)] {
                        if amt > 0 {
                            r.fork(&mut |r: &mut Recorder| {
                                r.act(mkb(amt));
                                r.act(json!({"op":"accrue","bank":"D1"}));
                            });
                        }
                    }
                }
                let mkw = |x: u64| json!({"op":"withdraw","acct":"LP","bank":"D1","amount":x});
                if let Some((lo, hi)) = search_boundary(&mut r, &mkw, dep.saturating_add(2), "IllegalUtilizationRatio") {
                    nutil += 1;
                    for amt in [hi + 1, hi, lo, lo.saturating_sub(1)] {
                        if amt > 0 {
                            r.fork(&mut |r: &mut Recorder| {
                                r.act(mkw(amt));
                            });
                        }
                    }
                }
            }
            4 => {
                // ---- a Token-2022 mint whose transfer fee is re-scheduled: deposits, repayments, withdrawals and borrows in
                // the epoch before the new fee takes over, in the epoch it takes over, and after it
                let mut extra = vec![];
                let (bps0, max0) = *pick(&mut rng, &[(100u64, 5000u64), (0, 0), (500, 1_000_000_000)]);
                let (bps1, max1) = *pick(&mut rng, &[(500u64, 1_000_000_000u64), (1000, 70_000), (1, 10), (0, 0)]);
                extra.push(json!({"op":"add_mint","mint":"M.F1","decimals":6,"kind":"t22fee","fee_bps":bps0,"max_fee":max0}));
                extra.push(json!({"op":"add_bank","group":"G1","bank":"F1","mint":"M.F1","cfg":{"ir":{"orig_fee": *pick(&mut rng, &["0", "0.01"])}}}));
                extra.push(json!({"op":"set_fixed_price","bank":"F1","price":"1"}));
                plain_bank("C1", 6, "spl", "1", json!({"aw_init":"1","aw_maint":"1"}), &mut extra);
                for u in ["U9", "U2", "U1"] {
                    extra.push(json!({"op":"fund","user":u,"mint":"M.F1","amount":"4000000000000000"}));
                }
                extra.push(json!({"op":"fund","user":"U1","mint":"M.C1","amount":"4000000000000000000"}));
                r.begin(&extra);
                r.act(json!({"op":"deposit","acct":"LP","bank":"F1","amount":"500000000000"}));
                r.act(json!({"op":"deposit","acct":"A1","bank":"C1","amount":"1000000000000000"}));
                r.act(json!({"op":"borrow","acct":"A1","bank":"F1","amount":"100000000000"}));
                r.act(json!({"op":"set_transfer_fee","mint":"M.F1","fee_bps":bps1,"max_fee":max1}));
                for _ in 0..4 {
                    for _ in 0..2 {
                        let amt: u64 = *pick(&mut rng, &[1u64, 99, 10_000, 1_000_003, 250_000_000, 20_000_000_000]);
                        let a = match rng.gen_range(0..5) {
                            0 => json!({"op":"deposit","acct":"A2","bank":"F1","amount":amt}),
                            1 => json!({"op":"repay","acct":"A1","bank":"F1","amount":amt}),
                            2 => json!({"op":"withdraw","acct":"LP","bank":"F1","amount":amt}),
                            3 => json!({"op":"borrow","acct":"A1","bank":"F1","amount":amt}),
                            _ => json!({"op":"deposit","acct":"LP","bank":"F1","amount":amt}),
                        };
                        r.act(a);
                    }
                    r.act(json!({"op":"set_epoch","by":1}));
                }
                r.act(json!({"op":"repay","acct":"A1","bank":"F1","amount":0,"all":true}));
                r.act(json!({"op":"withdraw","acct":"A2","bank":"F1","amount":0,"all":true}));
            }
            5 => {
                // ---- the steepest curves the program accepts, with every fee present, at and near full utilization: the
                // borrowers pay what the lenders and the fee buckets receive, however large the rates
                let mut extra = vec![];
                let hundred: u64 = *pick(&mut rng, &[4_294_967_295u64, 4_294_967_295, 3_865_470_566]);
                let pts = match rng.gen_range(0..3) {
                    0 => json!([[2_147_483_648u64, hundred - 1]]),
                    1 => json!([[429_496_729u64, 42_949_672u64], [4_080_218_930u64, hundred / 2]]),
                    _ => json!([[3_435_973_836u64, hundred]]),
                };
                plain_bank("D1", *pick(&mut rng, &[6u8, 9]), "spl", "1", json!({"ir":{"orig_fee": *pick(&mut rng, &["0", "0.02"]),
                    "ins_ir": *pick(&mut rng, &["0", "0.1", "0.5"]), "ins_fixed": *pick(&mut rng, &["0", "0.05", "1"]),
                    "grp_ir": *pick(&mut rng, &["0", "0.2", "0.5"]), "grp_fixed": *pick(&mut rng, &["0", "0.1", "2"]),
                    "zero": *pick(&mut rng, &[0u64, 42_949_672]), "hundred": hundred, "points": pts}}), &mut extra);
                plain_bank("C1", 6, "spl", "1", json!({"aw_init":"1","aw_maint":"1"}), &mut extra);
                extra.push(json!({"op":"fund","user":"U9","mint":"M.D1","amount":"4000000000000000000"}));
                extra.push(json!({"op":"fund","user":"U1","mint":"M.D1","amount":"4000000000000000000"}));
                extra.push(json!({"op":"fund","user":"U1","mint":"M.C1","amount":"4000000000000000000"}));
                if rng.gen_bool(0.3) {
                    extra.push(json!({"op":"config_group_fee","group":"G1","enable":false}));
                }
                r.begin(&extra);
                let dep: u64 = *pick(&mut rng, &[1_000_000u64, 50_000_000_000, 999_999_999]);
                r.act(json!({"op":"deposit","acct":"LP","bank":"D1","amount":dep}));
                r.act(json!({"op":"deposit","acct":"A1","bank":"C1","amount":"1000000000000000000"}));
                let f = *pick(&mut rng, &[100u64, 100, 99, 95, 50]);
                let mut b = dep / 100 * f;
                while b > 0 && r.act(json!({"op":"borrow","acct":"A1","bank":"D1","amount":b}))["res"] != "ok" {
                    b = b / 100 * 98;
                }
                for _ in 0..rng.gen_range(2..5) {
                    r.act(json!({"op":"tick","dt": *pick(&mut rng, &[1i64, 60, 3600, 86_400, 2_592_000])}));
                    match rng.gen_range(0..4) {
                        0 => r.act(json!({"op":"accrue","bank":"D1"})),
                        1 => r.act(json!({"op":"repay","acct":"A1","bank":"D1","amount": dep / 1000 + 1})),
                        2 => r.act(json!({"op":"deposit","acct":"LP","bank":"D1","amount": dep / 777 + 1})),
                        _ => r.act(json!({"op":"collect_fees","bank":"D1"})),
                    };
                }
                r.act(json!({"op":"accrue","bank":"D1"}));
                r.act(json!({"op":"repay","acct":"A1","bank":"D1","amount":0,"all":true}));
                r.act(json!({"op":"collect_fees","bank":"D1"}));
                r.act(json!({"op":"withdraw","acct":"LP","bank":"D1","amount":0,"all":true}));
            }
            6 => {
                // ---- Pyth feeds with exponents from -12 up to +3 and confidence ratios up to just under the maximum, on the
                // collateral and on the debt side: borrow and withdraw boundaries, liquidation boundary in the price
                let mut extra = vec![];
                let ce: i64 = *pick(&mut rng, &[1i64, 2, 3, 0, -12, -10]);
                let de: i64 = *pick(&mut rng, &[0i64, 1, 2, -8, -6]);
                let cdec: u64 = *pick(&mut rng, &[6u64, 9, 2]);
                let ddec: u64 = *pick(&mut rng, &[6u64, 9]);
                let cp: i64 = if ce >= 0 { *pick(&mut rng, &[1i64, 7, 150, 31_999]) } else { *pick(&mut rng, &[2_000_000_000_000i64, 150_000_000_000, 999_999_999_999_999]) };
                let dp: i64 = if de >= 0 { *pick(&mut rng, &[1i64, 3, 88]) } else { *pick(&mut rng, &[1_000_000i64, 100_000_000, 2_345_678_901]) };
                let cr = *pick(&mut rng, &[0.0f64, 0.01, 0.02, 0.03, 0.046, 0.047, 0.048, 0.09]);
                let dr = *pick(&mut rng, &[0.0f64, 0.0, 0.02, 0.04, 0.047, 0.06]);
                extra.push(json!({"op":"add_mint","mint":"M.C1","decimals":cdec,"kind":"spl"}));
                extra.push(json!({"op":"add_mint","mint":"M.D1","decimals":ddec,"kind":"spl"}));
                extra.push(json!({"op":"add_bank","group":"G1","bank":"C1","mint":"M.C1","cfg":{"aw_init": *pick(&mut rng, &["0.5", "0.8", "0.9"]), "aw_maint":"0.9", "oracle_max_age":60}}));
                extra.push(json!({"op":"add_bank","group":"G1","bank":"D1","mint":"M.D1","cfg":{"lw_init": *pick(&mut rng, &["1", "1.25"]), "lw_maint":"1", "oracle_max_age":60, "ir":{"orig_fee":"0"}}}));
                let cconf = ((cp as f64) * cr) as i64;
                let dconf = ((dp as f64) * dr) as i64;
                extra.push(json!({"op":"set_oracle","oracle":"O.C1","kind":"pyth","price":cp,"conf":cconf,"ema": ((cp as f64) * *pick(&mut rng, &[1.0f64, 0.97, 1.04])).max(1.0) as i64,"ema_conf":cconf,"expo":ce}));
                extra.push(json!({"op":"set_oracle","oracle":"O.D1","kind":"pyth","price":dp,"conf":dconf,"ema":dp,"ema_conf":dconf,"expo":de}));
                extra.push(json!({"op":"configure_oracle","bank":"C1","oracle":"O.C1","setup":3}));
                extra.push(json!({"op":"configure_oracle","bank":"D1","oracle":"O.D1","setup":3}));
                extra.push(json!({"op":"fund","user":"U9","mint":"M.D1","amount":"4000000000000000000"}));
                extra.push(json!({"op":"fund","user":"U2","mint":"M.D1","amount":"4000000000000000000"}));
                extra.push(json!({"op":"fund","user":"U1","mint":"M.C1","amount":"4000000000000000000"}));
                r.begin(&extra);
                let camt: u64 = *pick(&mut rng, &[1_000_000u64, 50_000, 3_000_000_000]);
                r.act(json!({"op":"deposit","acct":"LP","bank":"D1","amount":"1000000000000000000"}));
                r.act(json!({"op":"deposit","acct":"A2","bank":"D1","amount":"1000000000000000000"}));
                r.act(json!({"op":"deposit","acct":"A1","bank":"C1","amount":camt}));
                r.act(json!({"op":"pulse_health","acct":"A1"}));
                let mkb = |x: u64| json!({"op":"borrow","acct":"A1","bank":"D1","amount":x});
                let mut debt = 0u64;
                if let Some((lo, hi)) = search_boundary(&mut r, &mkb, 900_000_000_000_000_000, "RiskEngineInitRejected") {
                    for amt in [hi, lo] {
                        if amt > 0 {
                            r.fork(&mut |r: &mut Recorder| {
                                r.act(mkb(amt));
                            });
                        }
                    }
                    if lo > 0 && r.act(mkb(lo - lo / 5))["res"] == "ok" {
                        debt = lo - lo / 5;
                    }
                }
                let mkw = |x: u64| json!({"op":"withdraw","acct":"A1","bank":"C1","amount":x});
                if let Some((lo, hi)) = search_boundary(&mut r, &mkw, camt, "RiskEngineInitRejected") {
                    for amt in [hi, lo] {
                        if amt > 0 {
                            r.fork(&mut |r: &mut Recorder| {
                                r.act(mkw(amt));
                            });
                        }
                    }
                }
                r.act(json!({"op":"pulse_health","acct":"A1"}));
                if debt > 0 {
                    // liquidation boundary in the collateral price (confidence kept in proportion)
                    let liq1 = json!({"op":"liquidate","liquidator":"A2","liquidatee":"A1","asset_bank":"C1","liab_bank":"D1","amount":1});
                    let setp = |p: i64| json!({"op":"set_oracle","oracle":"O.C1","price":p,"conf":((p as f64) * cr) as i64});
                    let at = |r: &mut Recorder, p: i64| -> Value {
                        let s = r.ex.snapshot();
                        r.ex.apply(&setp(p));
                        let ev = r.ex.apply(&liq1);
                        r.ex.restore(&s);
                        ev
                    };
                    let (mut plo, mut phi) = (0i64, cp);
                    if at(&mut r, phi)["err"] == "HealthyAccount" {
                        while phi - plo > 1 {
                            let mid = plo + (phi - plo) / 2;
                            if mid > 0 && at(&mut r, mid)["res"] == "ok" {
                                plo = mid;
                            } else {
                                phi = mid;
                            }
                        }
                        r.act(setp(phi));
                        r.act(liq1.clone());
                        if plo > 0 {
                            r.act(setp(plo));
                            r.act(liq1.clone());
                            r.act(json!({"op":"liquidate","liquidator":"A2","liquidatee":"A1","asset_bank":"C1","liab_bank":"D1","amount":camt / 20 + 1}));
                        }
                    }
                }
            }
            7 => {
                // ---- a collateral bank that is being wound down (reduce-only) while its oracle is no longer updated: debt backed
                // by it cannot be assessed - neither liquidated nor written off - and it lends no borrowing power
                let mut extra = vec![];
                let c2 = rng.gen_bool(0.5);
                extra.push(json!({"op":"add_mint","mint":"M.C1","decimals":6,"kind":"spl"}));
                extra.push(json!({"op":"add_mint","mint":"M.D1","decimals":6,"kind":"spl"}));
                extra.push(json!({"op":"add_bank","group":"G1","bank":"C1","mint":"M.C1","cfg":{"aw_init":"0.8","aw_maint":"0.9","oracle_max_age":60}}));
                extra.push(json!({"op":"add_bank","group":"G1","bank":"D1","mint":"M.D1","cfg":{"lw_init":"1","lw_maint":"1","oracle_max_age":60,"ir":{"orig_fee":"0"}}}));
                let kind = *pick(&mut rng, &["pyth", "swb"]);
                if kind == "pyth" {
                    extra.push(json!({"op":"set_oracle","oracle":"O.C1","kind":"pyth","price":1_000_000,"conf":0,"expo":-6}));
                    extra.push(json!({"op":"configure_oracle","bank":"C1","oracle":"O.C1","setup":3}));
                } else {
                    extra.push(json!({"op":"set_oracle","oracle":"O.C1","kind":"swb","swb_value":"1000000000000000000","swb_std":"0"}));
                    extra.push(json!({"op":"configure_oracle","bank":"C1","oracle":"O.C1","setup":4}));
                }
                extra.push(json!({"op":"set_oracle","oracle":"O.D1","kind":"pyth","price":1_000_000,"conf":0,"expo":-6}));
                extra.push(json!({"op":"configure_oracle","bank":"D1","oracle":"O.D1","setup":3}));
                if c2 {
                    plain_bank("C2", 6, "spl", "1", json!({"aw_init":"0.5","aw_maint":"0.6"}), &mut extra);
                    extra.push(json!({"op":"fund","user":"U1","mint":"M.C2","amount":"4000000000000000000"}));
                }
                extra.push(json!({"op":"fund","user":"U9","mint":"M.D1","amount":"4000000000000000000"}));
                extra.push(json!({"op":"fund","user":"U2","mint":"M.D1","amount":"4000000000000000000"}));
                extra.push(json!({"op":"fund","user":"U1","mint":"M.C1","amount":"4000000000000000000"}));
                r.begin(&extra);
                r.act(json!({"op":"deposit","acct":"LP","bank":"D1","amount":"1000000000000"}));
                r.act(json!({"op":"deposit","acct":"A2","bank":"D1","amount":"1000000000000"}));
                r.act(json!({"op":"deposit","acct":"A1","bank":"C1","amount":1_000_000_000u64}));
                r.act(json!({"op":"init_liq_record","acct":"A1"}));
                if c2 {
                    r.act(json!({"op":"deposit","acct":"A1","bank":"C2","amount": *pick(&mut rng, &[1000u64, 100_000_000])}));
                }
                r.act(json!({"op":"borrow","acct":"A1","bank":"D1","amount": *pick(&mut rng, &[100_000_000u64, 600_000_000, 790_000_000])}));
                r.act(json!({"op":"configure_bank","bank":"C1","cfg":{"op_state":2}}));
                // the debt grows a little or a lot; the C1 feed stops, the D1 feed keeps going
                r.act(json!({"op":"tick","dt": *pick(&mut rng, &[100i64, 100_000, 31_536_000, 94_608_000]),"refresh_oracles":false}));
                r.act(json!({"op":"set_oracle","oracle":"O.D1","age":0}));
                let liq = |x: u64| json!({"op":"liquidate","liquidator":"A2","liquidatee":"A1","asset_bank": if c2 {"C2"} else {"C1"},"liab_bank":"D1","amount":x});
                r.act(liq(1));
                r.act(json!({"op":"bankruptcy","acct":"A1","bank":"D1"}));
                r.act(json!({"op":"pulse_health","acct":"A1"}));
                r.act(json!({"op":"borrow","acct":"A1","bank":"D1","amount":1}));
                r.fork(&mut |r: &mut Recorder| {
                    r.act(json!({"op":"tx","ixs":[{"op":"start_liq","acct":"A1","receiver":"liquidator"},{"op":"end_liq","acct":"A1","receiver":"liquidator"}]}));
                });
                // the feed comes back with a price that makes the account unhealthy / keeps it healthy
                r.act(json!({"op":"set_oracle","oracle":"O.C1","age":0,"price": *pick(&mut rng, &[1_000_000i64, 500_000, 100_000]),
                             "swb_value": *pick(&mut rng, &["1000000000000000000", "500000000000000000"])}));
                r.act(liq(1));
                r.act(json!({"op":"pulse_health","acct":"A1"}));
                r.act(json!({"op":"bankruptcy","acct":"A1","bank":"D1"}));
            }
            8 => {
                // ---- winding a bank down whose deposit share value is no longer 1: token-less repayments allowed and declared
                // complete, then the lenders' positions purged one by one (the others' claims and the totals must follow)
                let mut extra = vec![];
                plain_bank("D1", *pick(&mut rng, &[6u8, 9]), "spl", "1", json!({"ir":{"orig_fee":"0","ins_ir": *pick(&mut rng, &["0", "0.1"])}}), &mut extra);
                plain_bank("C1", 6, "spl", "1", json!({"aw_init":"1","aw_maint":"1"}), &mut extra);
                extra.push(json!({"op":"fund","user":"U9","mint":"M.D1","amount":"4000000000000000000"}));
                extra.push(json!({"op":"fund","user":"U2","mint":"M.D1","amount":"4000000000000000000"}));
                extra.push(json!({"op":"fund","user":"U1","mint":"M.D1","amount":"4000000000000000000"}));
                extra.push(json!({"op":"fund","user":"U1","mint":"M.C1","amount":"4000000000000000000"}));
                r.begin(&extra);
                let dep: u64 = *pick(&mut rng, &[1_000_000u64, 777_777_777, 90_000_000_000]);
                r.act(json!({"op":"deposit","acct":"LP","bank":"D1","amount":dep}));
                r.act(json!({"op":"deposit","acct":"A2","bank":"D1","amount": dep / *pick(&mut rng, &[1u64, 3, 7])}));
                r.act(json!({"op":"deposit","acct":"A1","bank":"C1","amount":"1000000000000000000"}));
                r.act(json!({"op":"borrow","acct":"A1","bank":"D1","amount": dep / 10 * *pick(&mut rng, &[5u64, 9])}));
                r.act(json!({"op":"tick","dt": *pick(&mut rng, &[2_592_000i64, 31_536_000, 94_608_000])}));
                r.act(json!({"op":"accrue","bank":"D1"}));
                if rng.gen_bool(0.5) {
                    r.act(json!({"op":"repay","acct":"A1","bank":"D1","amount":0,"all":true}));
                }
                r.act(json!({"op":"purge","acct":"LP","bank":"D1"}));                              // not flagged
                r.act(json!({"op":"configure_bank","bank":"D1","cfg":{"tokenless_allowed":true}}));
                // (interest keeps accruing on a bank that is being wound down, fees included)
                r.act(json!({"op":"tick","dt": *pick(&mut rng, &[3600i64, 2_592_000])}));
                r.act(json!({"op":"accrue","bank":"D1"}));
                r.act(json!({"op":"purge","acct":"LP","bank":"D1"}));                              // allowed, not complete
                r.act(json!({"op":"tokenless_complete","bank":"D1"}));
                r.act(json!({"op":"purge","acct":"A1","bank":"D1"}));                              // a debt position (or none)
                r.act(json!({"op":"purge","acct":"LP","bank":"D1","signer":"admin"}));
                let first = *pick(&mut rng, &["LP", "A2"]);
                let second = if first == "LP" { "A2" } else { "LP" };
                r.act(json!({"op":"purge","acct":first,"bank":"D1"}));
                r.act(json!({"op":"accrue","bank":"D1"}));
                r.act(json!({"op":"withdraw","acct":second,"bank":"D1","amount":1}));
                r.act(json!({"op":"purge","acct":first,"bank":"D1"}));                             // already gone
                r.act(json!({"op":"purge","acct":second,"bank":"D1"}));
                r.act(json!({"op":"pulse_health","acct":second}));
                r.act(json!({"op":"close_bank","bank":"D1"}));
            }
            9 => {
                // ---- all sixteen balance slots in use, one of them holding less than a share (a plain withdrawal of the
                // principal after interest accrued), another one emptied but still active: a seventeenth position is refused
                // whatever opens it (deposit, borrow, being the liquidator), and nothing else about the account changes
                let mut extra = vec![];
                for i in 1..=17u32 {
                    let nm = format!("S{}", i);
                    plain_bank(&nm, 6, "spl", "1", json!({"aw_init":"0.5","aw_maint":"0.6","ir":{"orig_fee":"0"}}), &mut extra);
                    extra.push(json!({"op":"fund","user":"U1","mint":format!("M.S{}", i),"amount":"4000000000000"}));
                    extra.push(json!({"op":"fund","user":"U9","mint":format!("M.S{}", i),"amount":"4000000000000"}));
                }
                extra.push(json!({"op":"fund","user":"U2","mint":"M.S2","amount":"4000000000000"}));
                r.begin(&extra);
                // S1: a borrower makes the deposit share value grow
                r.act(json!({"op":"deposit","acct":"A1","bank":"S1","amount":1_000_000}));
                r.act(json!({"op":"deposit","acct":"A2","bank":"S2","amount":100_000_000}));
                r.act(json!({"op":"deposit","acct":"LP","bank":"S1","amount":50_000_000}));
                r.act(json!({"op":"borrow","acct":"A2","bank":"S1","amount":20_000_000}));
                for i in 2..=16u32 {
                    r.act(json!({"op":"deposit","acct":"A1","bank":format!("S{}", i),"amount": 1000 + i as u64}));
                }
                r.act(json!({"op":"tick","dt": *pick(&mut rng, &[86_400i64, 2_592_000, 31_536_000])}));
                r.act(json!({"op":"accrue","bank":"S1"}));
                // (every whole unit of the balance: what stays is a fraction of a unit, i.e. less than one share)
                let whole: u64 = asset_amount(&mut r, "A1", "S1").map(|v| v.floor().to_num::<u64>()).unwrap_or(1_000_000);
                r.act(json!({"op":"withdraw","acct":"A1","bank":"S1","amount":whole}));
                r.act(json!({"op":"pulse_health","acct":"A1"}));
                for emptied in [false, true] {
                    for op in ["deposit", "borrow"] {
                        r.fork(&mut |r: &mut Recorder| {
                            if emptied {
                                r.act(json!({"op":"withdraw","acct":"A1","bank":"S2","amount":1002}));     // emptied, still active
                            }
                            r.act(json!({"op":op,"acct":"A1","bank":"S17","amount":500}));
                            r.act(json!({"op":"pulse_health","acct":"A1"}));
                            r.act(json!({"op":"withdraw","acct":"A1","bank":"S1","amount":0,"all":true}));
                        });
                    }
                }
                // after closing a slot properly the seventeenth bank fits
                r.act(json!({"op":"close_balance","acct":"A1","bank":"S1"}));
                r.act(json!({"op":"withdraw","acct":"A1","bank":"S2","amount":0,"all":true}));
                r.act(json!({"op":"deposit","acct":"A1","bank":"S17","amount":500}));
                r.act(json!({"op":"pulse_health","acct":"A1"}));
            }
            10 => {
                // ---- an operation that reaches across the zero of a position by less than 0.0001 of a token: a withdrawal of
                // slightly more than the deposit is worth, a borrow against a deposit of less than 0.0001 (share value set to a
                // chosen figure - marked state injection - so that the deposit's worth is a whole number minus / plus 0.00005)
                let mut extra = vec![];
                plain_bank("D1", 6, "spl", "1", json!({"ir":{"orig_fee":"0"}}), &mut extra);
                plain_bank("C1", 6, "spl", "1", json!({"aw_init":"1","aw_maint":"1"}), &mut extra);
                extra.push(json!({"op":"fund","user":"U9","mint":"M.D1","amount":"4000000000000000000"}));
                extra.push(json!({"op":"fund","user":"U1","mint":"M.D1","amount":"4000000000000000000"}));
                extra.push(json!({"op":"fund","user":"U1","mint":"M.C1","amount":"4000000000000000000"}));
                r.begin(&extra);
                let below = (k / 15) % 2 == 0;
                r.act(json!({"op":"deposit","acct":"LP","bank":"D1","amount":50_000_000}));
                r.act(json!({"op":"deposit","acct":"A1","bank":"C1","amount":1_000_000_000}));
                r.act(json!({"op":"deposit","acct":"A1","bank":"D1","amount":1000}));
                r.act(json!({"op":"fund_vault","mint":"M.D1","dst":"D1.liq","amount":"1000000"}));
                r.act(json!({"op":"inject_bank","bank":"D1","asv": if below { "1.00099995" } else { "1.00000005" }}));
                if below {
                    // the deposit is worth 1000.99995: withdrawing 1001 reaches 0.00005 past it
                    for amt in [1001u64, 1002, 1000] {
                        r.fork(&mut |r: &mut Recorder| {
                            r.act(json!({"op":"withdraw","acct":"A1","bank":"D1","amount":amt}));
                            r.act(json!({"op":"pulse_health","acct":"A1"}));
                            r.act(json!({"op":"repay","acct":"A1","bank":"D1","amount":0,"all":true}));
                        });
                    }
                } else {
                    // worth 1000.00005: after withdrawing 1000, 0.00005 is left; a borrow then starts from that remainder
                    r.act(json!({"op":"withdraw","acct":"A1","bank":"D1","amount":1000}));
                    for amt in [5u64, 1] {
                        r.fork(&mut |r: &mut Recorder| {
                            r.act(json!({"op":"borrow","acct":"A1","bank":"D1","amount":amt}));
                            r.act(json!({"op":"repay","acct":"A1","bank":"D1","amount":0,"all":true}));
                        });
                    }
                    r.act(json!({"op":"deposit","acct":"A1","bank":"D1","amount":7}));
                    r.act(json!({"op":"withdraw","acct":"A1","bank":"D1","amount":0,"all":true}));
                }
            }
            11 => {
                // ---- both limits finite with the borrow limit at or above the deposit limit, deposits already beyond both (the
                // admin lowered the deposit limit under the current deposits): the borrow limit still binds - largest accepted
                // borrow by bisection, the amounts around it recorded
                let mut extra = vec![];
                plain_bank("D1", 6, "spl", "1", json!({"ir":{"orig_fee": *pick(&mut rng, &["0", "0.01"])}}), &mut extra);
                plain_bank("C1", 6, "spl", "1", json!({"aw_init":"1","aw_maint":"1"}), &mut extra);
                extra.push(json!({"op":"fund","user":"U9","mint":"M.D1","amount":"4000000000000000000"}));
                extra.push(json!({"op":"fund","user":"U1","mint":"M.C1","amount":"4000000000000000000"}));
                r.begin(&extra);
                let dep: u64 = *pick(&mut rng, &[9_000_000_000u64, 77_000_000]);
                r.act(json!({"op":"deposit","acct":"LP","bank":"D1","amount":dep}));
                r.act(json!({"op":"deposit","acct":"A1","bank":"C1","amount":"1000000000000000000"}));
                let dl = dep / 9;
                let bl = match rng.gen_range(0..3) { 0 => dl, 1 => dl * 5, _ => dl + 1 };
                r.act(json!({"op":"configure_limits","bank":"D1","deposit_limit":dl.to_string(),"borrow_limit":bl.to_string()}));
                if rng.gen_bool(0.5) {
                    r.act(json!({"op":"borrow","acct":"A1","bank":"D1","amount": bl / 3}));
                    r.act(json!({"op":"tick","dt": 86_400i64}));
                    r.act(json!({"op":"accrue","bank":"D1"}));
                }
                let mkb = |x: u64| json!({"op":"borrow","acct":"A1","bank":"D1","amount":x});
                if let Some((lo, hi)) = search_boundary(&mut r, &mkb, dep, "BankLiabilityCapacityExceeded") {
                    for amt in [hi + 1, hi, lo] {
                        if amt > 0 {
                            r.fork(&mut |r: &mut Recorder| {
                                r.act(mkb(amt));
                            });
                        }
                    }
                } else {
                    r.act(mkb(bl));
                    r.act(mkb(bl.saturating_add(bl / 5)));
                }
                r.act(json!({"op":"deposit","acct":"LP","bank":"D1","amount":1000}));
            }
            12 => {
                // ---- a bank that still carries the legacy three-parameter curve (marked state injection: no instruction can
                // create one any more): interest accrues on it, anyone migrates it to the seven-point form, interest accrues on
                // the migrated curve; a second migration does nothing
                let mut extra = vec![];
                plain_bank("D1", 6, "spl", "1", json!({"ir":{"orig_fee":"0","ins_ir": *pick(&mut rng, &["0", "0.1"]),"grp_fixed": *pick(&mut rng, &["0", "0.01"])}}), &mut extra);
                plain_bank("C1", 6, "spl", "1", json!({"aw_init":"1","aw_maint":"1"}), &mut extra);
                extra.push(json!({"op":"fund","user":"U9","mint":"M.D1","amount":"4000000000000000000"}));
                extra.push(json!({"op":"fund","user":"U1","mint":"M.D1","amount":"4000000000000000000"}));
                extra.push(json!({"op":"fund","user":"U1","mint":"M.C1","amount":"4000000000000000000"}));
                r.begin(&extra);
                let (opt, plat, max) = *pick(&mut rng, &[("0.8", "0.1", "3"), ("0.5", "0.05", "1"), ("0.9", "0.39", "0.4"), ("0.333", "0.0333", "9.99"), ("0.01", "0.001", "0.7"), ("0.99", "2", "10"), ("0.9", "0.4", "0.4"), ("0.123456789", "0.987654321", "1.23456789")]);
                r.act(json!({"op":"deposit","acct":"LP","bank":"D1","amount":1_000_000_000u64}));
                r.act(json!({"op":"deposit","acct":"A1","bank":"C1","amount":"1000000000000000"}));
                r.act(json!({"op":"inject_bank","bank":"D1","legacy":{"opt":opt,"plateau":plat,"max":max}}));
                r.act(json!({"op":"borrow","acct":"A1","bank":"D1","amount": 100_000_000u64 * *pick(&mut rng, &[1u64, 5, 8, 9])}));
                r.act(json!({"op":"tick","dt": *pick(&mut rng, &[3600i64, 2_592_000])}));
                r.act(json!({"op":"accrue","bank":"D1"}));
                r.act(json!({"op":"migrate_curve","bank":"D1"}));
                r.act(json!({"op":"tick","dt": *pick(&mut rng, &[3600i64, 2_592_000])}));
                r.act(json!({"op":"accrue","bank":"D1"}));
                r.act(json!({"op":"migrate_curve","bank":"D1"}));
                r.act(json!({"op":"repay","acct":"A1","bank":"D1","amount":0,"all":true}));
                r.act(json!({"op":"configure_interest","bank":"D1","ir":{"ins_ir":"0.05"}}));
            }
            13 => {
                // ---- a liquidator that already holds several positions, one of them in the bank it seizes from and none in the
                // debt bank: the liquidation opens exactly one new position (the debt) and adds to the existing one; if the
                // canonical account list is refused, lists naming one of the liquidator's banks twice are tried, as a client
                // confronted with the refusal might
                let mut extra = vec![];
                for i in 1..=5u32 {
                    plain_bank(&format!("K{}", i), 6, "spl", "1", json!({"aw_init":"0.8","aw_maint":"0.9","ir":{"orig_fee":"0"}}), &mut extra);
                    extra.push(json!({"op":"fund","user":"U2","mint":format!("M.K{}", i),"amount":"4000000000000"}));
                    extra.push(json!({"op":"fund","user":"U1","mint":format!("M.K{}", i),"amount":"4000000000000"}));
                }
                // (the debt bank's name - and with it its key, above or below the collateral banks' keys - varies)
                let db = format!("DB{}", k / 15);
                plain_bank(&db, 6, "spl", "1", json!({"ir":{"orig_fee":"0"}}), &mut extra);
                extra.push(json!({"op":"fund","user":"U9","mint":format!("M.{}", db),"amount":"4000000000000"}));
                r.begin(&extra);
                let nhold = *pick(&mut rng, &[2usize, 3, 4, 4, 5]);
                let asset = rng.gen_range(1..=nhold);
                let ab = format!("K{}", asset);
                r.act(json!({"op":"deposit","acct":"LP","bank":db,"amount":"1000000000000"}));
                r.act(json!({"op":"deposit","acct":"A1","bank":ab,"amount":1_000_000_000u64}));
                r.act(json!({"op":"borrow","acct":"A1","bank":db,"amount":600_000_000u64}));
                for i in 1..=nhold {
                    r.act(json!({"op":"deposit","acct":"A2","bank":format!("K{}", i),"amount":5_000_000_000u64}));
                }
                r.act(json!({"op":"set_fixed_price","bank":ab,"price":"1/2"}));
                let l = json!({"op":"liquidate","liquidator":"A2","liquidatee":"A1","asset_bank":ab,"liab_bank":db,"amount": *pick(&mut rng, &[1000u64, 50_000_000])});
                let ev = r.act(l.clone());
                if ev["res"] != "ok" {
                    // the liquidator's list after the liquidation has nhold + 1 banks; name each of them twice in turn
                    let npos = nhold + 1;
                    for dup in 0..npos {
                        let mut idx: Vec<usize> = (0..npos).collect();
                        idx.insert(dup + 1, dup);
                        let mut l2 = l.clone();
                        l2["rem_perm"] = json!({"A2": idx});
                        r.fork(&mut |r: &mut Recorder| {
                            r.act(l2.clone());
                            r.act(json!({"op":"pulse_health","acct":"A2"}));
                        });
                    }
                }
                r.act(json!({"op":"pulse_health","acct":"A2"}));
                r.act(json!({"op":"withdraw","acct":"A2","bank":ab,"amount":1}));
            }
            14 => {
                // ---- asset classes: a SOL-class position goes with either class, a default-class position (deposit or pure debt)
                // excludes staked collateral and the other way round - whatever order the positions are opened in
                let mut extra = vec![];
                plain_bank("TS", 9, "spl", "1", json!({"aw_init":"0.8","aw_maint":"0.9","asset_tag":1,"ir":{"orig_fee":"0"}}), &mut extra);
                plain_bank("TD", 6, "spl", "1", json!({"ir":{"orig_fee":"0"}}), &mut extra);
                plain_bank("TK", 9, "spl", "1", json!({"aw_init":"0.8","aw_maint":"0.9","ir":{"orig_fee":"0"}}), &mut extra);
                extra.push(json!({"op":"configure_bank","bank":"TK","cfg":{"asset_tag":2}}));
                for m in ["M.TS", "M.TD", "M.TK"] {
                    extra.push(json!({"op":"fund","user":"U1","mint":m,"amount":"4000000000000000"}));
                    extra.push(json!({"op":"fund","user":"U9","mint":m,"amount":"4000000000000000"}));
                }
                r.begin(&extra);
                r.act(json!({"op":"deposit","acct":"LP","bank":"TD","amount":"1000000000000"}));
                r.act(json!({"op":"deposit","acct":"LP","bank":"TS","amount":"1000000000000"}));
                let order = (k / 15) % 4;
                match order {
                    0 => {
                        // SOL-class collateral, a pure default-class debt, then staked collateral
                        r.act(json!({"op":"deposit","acct":"A1","bank":"TS","amount":"5000000000000"}));
                        r.act(json!({"op":"borrow","acct":"A1","bank":"TD","amount":1_000_000u64}));
                        r.act(json!({"op":"deposit","acct":"A1","bank":"TK","amount":"1000000000"}));
                    }
                    1 => {
                        // staked collateral first, then a default-class debt / deposit
                        r.act(json!({"op":"deposit","acct":"A1","bank":"TK","amount":"5000000000000"}));
                        r.act(json!({"op":"borrow","acct":"A1","bank":"TD","amount":1_000_000u64}));
                        r.act(json!({"op":"deposit","acct":"A1","bank":"TD","amount":1_000u64}));
                        r.act(json!({"op":"borrow","acct":"A1","bank":"TS","amount":1_000_000u64}));
                    }
                    2 => {
                        // a default-class debt that was repaid down to less than a share, then staked collateral
                        r.act(json!({"op":"deposit","acct":"A1","bank":"TS","amount":"5000000000000"}));
                        r.act(json!({"op":"borrow","acct":"A1","bank":"TD","amount":1_000_000u64}));
                        r.act(json!({"op":"repay","acct":"A1","bank":"TD","amount":1_000_000u64}));
                        r.act(json!({"op":"deposit","acct":"A1","bank":"TK","amount":"1000000000"}));
                        r.act(json!({"op":"close_balance","acct":"A1","bank":"TD"}));
                        r.act(json!({"op":"deposit","acct":"A1","bank":"TK","amount":"1000000000"}));
                    }
                    _ => {
                        // default-class deposit, then staked; after leaving the default bank staked is fine
                        r.act(json!({"op":"deposit","acct":"A1","bank":"TD","amount":1_000_000u64}));
                        r.act(json!({"op":"deposit","acct":"A1","bank":"TK","amount":"1000000000"}));
                        r.act(json!({"op":"withdraw","acct":"A1","bank":"TD","amount":0,"all":true}));
                        r.act(json!({"op":"deposit","acct":"A1","bank":"TK","amount":"1000000000"}));
                        r.act(json!({"op":"deposit","acct":"A1","bank":"TS","amount":"1000000000"}));
                        r.act(json!({"op":"borrow","acct":"A1","bank":"TD","amount":1u64}));
                    }
                }
                r.act(json!({"op":"pulse_health","acct":"A1"}));
            }
            _ => {
                // ---- a solvent account in a collateral bank whose collateral-value cap is lowered far below its deposits
                // (the discount applies to borrowing power only): bankruptcy attempts must be refused, liquidation must
                // follow the undiscounted maintenance valuation.
                let mut extra = vec![];
                plain_bank("D1", 6, "spl", "1", json!({"ir":{"orig_fee":"0"}}), &mut extra);
                plain_bank("C1", 6, "spl", "1", json!({"aw_init":"0.8","aw_maint":"0.9"}), &mut extra);
                extra.push(json!({"op":"fund","user":"U9","mint":"M.D1","amount":"4000000000000000000"}));
                extra.push(json!({"op":"fund","user":"U2","mint":"M.D1","amount":"4000000000000000000"}));
                extra.push(json!({"op":"fund","user":"U2","mint":"M.C1","amount":"4000000000000000000"}));
                extra.push(json!({"op":"fund","user":"U1","mint":"M.C1","amount":"4000000000000000000"}));
                r.begin(&extra);
                let camt: u64 = *pick(&mut rng, &[100_000_000u64, 5_000_000_000]);
                r.act(json!({"op":"deposit","acct":"LP","bank":"D1","amount":"1000000000000"}));
                r.act(json!({"op":"deposit","acct":"A2","bank":"D1","amount":"1000000000000"}));
                r.act(json!({"op":"deposit","acct":"A1","bank":"C1","amount":camt}));
                r.act(json!({"op":"deposit","acct":"A2","bank":"C1","amount":camt.saturating_mul(*pick(&mut rng, &[40u64, 1000, 1]))}));
                r.act(json!({"op":"borrow","acct":"A1","bank":"D1","amount": camt / 10 * *pick(&mut rng, &[1u64, 5, 6])}));
                r.act(json!({"op":"configure_bank","bank":"C1","cfg":{"init_limit": *pick(&mut rng, &[1u64, 1, 3, 100])}}));
                for signer in ["admin", "riskadmin"] {
                    r.fork(&mut |r: &mut Recorder| {
                        r.act(json!({"op":"bankruptcy","acct":"A1","bank":"D1","signer":signer}));
                    });
                }
                r.act(json!({"op":"pulse_health","acct":"A1"}));
                r.act(json!({"op":"liquidate","liquidator":"A2","liquidatee":"A1","asset_bank":"C1","liab_bank":"D1","amount":1000}));
                r.act(json!({"op":"borrow","acct":"A1","bank":"D1","amount":1}));
                r.act(json!({"op":"withdraw","acct":"A1","bank":"C1","amount":1}));
                r.act(json!({"op":"set_fixed_price","bank":"C1","price": *pick(&mut rng, &["1/2", "3/4"])}));
                r.fork(&mut |r: &mut Recorder| {
                    r.act(json!({"op":"bankruptcy","acct":"A1","bank":"D1"}));
                });
                r.act(json!({"op":"liquidate","liquidator":"A2","liquidatee":"A1","asset_bank":"C1","liab_bank":"D1","amount":1000}));
            }
        }
    }
    eprintln!("edge driver: {} scenarios, {} bankruptcies ok, {} banks killed, {} accounts closed, {} utilization boundaries, {} events", n, nbk, nkill, nclose, nutil, r.events);
    r.finish();
}

// ------------------------------------------------------------------------------------------------
// kill driver (C07 C13): a bank wiped out by bad debt (the sole borrower drew every deposited token, empty insurance) is in the
// killed-by-bankruptcy state; the admin then asks for every operational state in every order of two (a detour through paused
// or reduce-only first), probing with a deposit and a borrow after each request; other admin reconfigurations of the dead
// bank (weights, limits) go on; a second bank of the group stays untouched.
// ------------------------------------------------------------------------------------------------
pub fn kill_driver(out: &str, seed: u64, n: u64) {
    let mut rng = StdRng::seed_from_u64(seed ^ 0x6b11);
    let mut r = Recorder::new(&format!("{}/kill.trace", out), base_setup());
    let mut nkill = 0u64;
    for k in 0..n {
        let dec = *pick(&mut rng, &[6u8, 9, 2]);
        let x: u64 = *pick(&mut rng, &[1_000_000u64, 123_456_789, 7, 50_000_000_000]);
        let mut extra = vec![];
        plain_bank("D1", dec, "spl", "1", json!({"ir":{"orig_fee":"0"}}), &mut extra);
        plain_bank("C1", 6, "spl", "1", json!({"aw_init":"1","aw_maint":"1"}), &mut extra);
        extra.push(json!({"op":"fund","user":"U9","mint":"M.D1","amount":"4000000000000000000"}));
        extra.push(json!({"op":"fund","user":"U2","mint":"M.D1","amount":"4000000000000000000"}));
        extra.push(json!({"op":"fund","user":"U1","mint":"M.C1","amount":"4000000000000000000"}));
        r.begin(&extra);
        r.act(json!({"op":"deposit","acct":"LP","bank":"D1","amount":x}));
        let need: u128 = (x as u128) * 10u128.pow(6) / 10u128.pow(dec as u32) * 4 + 10_000_000;
        r.act(json!({"op":"deposit","acct":"A1","bank":"C1","amount":need.to_string()}));
        r.act(json!({"op":"borrow","acct":"A1","bank":"D1","amount":x}));
        r.act(json!({"op":"set_fixed_price","bank":"C1","price":"1/100000000000"}));
        r.act(json!({"op":"bankruptcy","acct":"A1","bank":"D1"}));
        let killed = r.ex.bank("D1").map(|b| b.config.operational_state as u8 == 3).unwrap_or(false);
        if !killed {
            continue;
        }
        nkill += 1;
        let probe = |r: &mut Recorder| {
            r.act(json!({"op":"deposit","acct":"LP","bank":"D1","amount":1000}));
            r.act(json!({"op":"borrow","acct":"A2","bank":"D1","amount":1}));
        };
        // every request alone, and every ordered pair of requests (recorded side branches)
        let states = [0u64, 1, 2, 3];
        let first = states[(k % 4) as usize];
        for s1 in states {
            r.fork(&mut |r: &mut Recorder| {
                r.act(json!({"op":"configure_bank","bank":"D1","cfg":{"op_state":s1}}));
                probe(r);
                for s2 in states {
                    if s2 != s1 && (s1 == first || s2 == 1) {
                        r.fork(&mut |r: &mut Recorder| {
                            r.act(json!({"op":"configure_bank","bank":"D1","cfg":{"op_state":s2}}));
                            probe(r);
                        });
                    }
                }
            });
        }
        // the state riding along with other fields, by the admin and by a stranger
        r.act(json!({"op":"configure_bank","bank":"D1","cfg":{"op_state":0,"deposit_limit":"1000000000000"}}));
        r.act(json!({"op":"configure_bank","bank":"D1","cfg":{"op_state":2},"signer":"stranger"}));
        r.act(json!({"op":"configure_bank","bank":"D1","cfg":{"deposit_limit":"1000000000000"}}));
        probe(&mut r);
        r.act(json!({"op":"withdraw","acct":"LP","bank":"D1","amount":0,"all":true}));
    }
    eprintln!("kill driver: {} scenarios, {} banks killed, {} events", n, nkill, r.events);
    r.finish();
}

// ------------------------------------------------------------------------------------------------
// zerorate driver (C06): curves whose base rate is zero over a stretch of utilization (zero rate at 0 %, a point at
// (50 %, 0) or all the way to (99 %, 0)) on banks that charge fixed fees (insurance / group; program fees on or off) and rate
// fees: inside the flat stretch the borrowers pay the fixed fees only and every unit they pay has to reach a fee bucket;
// beyond it the rate fees join in. Borrow to a utilization inside / at the end of / beyond the stretch, let time pass, accrue.
// ------------------------------------------------------------------------------------------------
pub fn zerorate_driver(out: &str, seed: u64, n: u64) {
    let mut rng = StdRng::seed_from_u64(seed ^ 0x2e20);
    let mut r = Recorder::new(&format!("{}/zerorate.trace", out), base_setup());
    let full: u64 = 4_294_967_295;
    for k in 0..n {
        let flat_end: u64 = *pick(&mut rng, &[full / 2, full / 10 * 9, full / 100 * 99, full / 4]);
        let fees = match k % 4 {
            0 => json!({"ins_fixed":"0.01"}),
            1 => json!({"grp_fixed":"0.02","ins_ir":"0.1"}),
            2 => json!({"ins_fixed":"0.005","grp_fixed":"0.03","grp_ir":"0.25","ins_ir":"0.05"}),
            _ => json!({"ins_fixed":"0.5","grp_fixed":"0.5"}),
        };
        let mut ir = fees.clone();
        ir["zero"] = json!(0);
        ir["hundred"] = json!(*pick(&mut rng, &[429_496_729u64, 42_949_672, full]));
        ir["points"] = json!([[flat_end, 0]]);
        ir["orig_fee"] = json!("0");
        let mut extra = vec![];
        plain_bank("Z1", *pick(&mut rng, &[6u8, 9]), "spl", "1", json!({"ir": ir}), &mut extra);
        plain_bank("C1", 6, "spl", "1", json!({"aw_init":"1","aw_maint":"1"}), &mut extra);
        extra.push(json!({"op":"fund","user":"U9","mint":"M.Z1","amount":"4000000000000000000"}));
        extra.push(json!({"op":"fund","user":"U1","mint":"M.C1","amount":"4000000000000000000"}));
        extra.push(json!({"op":"fund","user":"U1","mint":"M.Z1","amount":"4000000000000000000"}));
        if k % 3 == 0 {
            extra.push(json!({"op":"config_group_fee","group":"G1","enable":false}));
        }
        r.begin(&extra);
        let dep: u64 = *pick(&mut rng, &[1_000_000_000u64, 123_456_789_012, 50_000_000]);
        r.act(json!({"op":"deposit","acct":"LP","bank":"Z1","amount":dep}));
        r.act(json!({"op":"deposit","acct":"A1","bank":"C1","amount":(dep as u128 * 4_000).to_string()}));
        // utilization inside the flat stretch, at its end, beyond it
        for frac in [0.2f64, (flat_end as f64 / full as f64) - 0.001, (flat_end as f64 / full as f64) + 0.004] {
            let target = (dep as f64 * frac) as u64;
            let have = r.ex.bank("Z1").map(|b| { let l: I80F48 = b.total_liability_shares.into(); let v: I80F48 = b.liability_share_value.into(); (l * v).to_num::<u64>() }).unwrap_or(0);
            if target > have {
                r.act(json!({"op":"borrow","acct":"A1","bank":"Z1","amount":target - have}));
            }
            for dt in [1i64, 86_400, 31_536_000] {
                r.act(json!({"op":"tick","dt":dt}));
                r.act(json!({"op":"accrue","bank":"Z1"}));
            }
            r.act(json!({"op":"collect_fees","bank":"Z1"}));
        }
        r.act(json!({"op":"repay","acct":"A1","bank":"Z1","amount":0,"all":true}));
    }
    eprintln!("zerorate driver: {} scenarios, {} events", n, r.events);
    r.finish();
}
